/-
Refine/Compare.lean — task RP5 (properties C13, C06): the TRANSLATED similarity kernels of
`src/msmhelper/md/comparison.py` (`Gen/MdComparison.lean`) compute exactly the hand-written model
(`Events.intersect`, `Compare.maxQ`, `Compare.similarityIdx`), raise no `IndexError`, and the fuel of the
translated `while` loop of `_intersect` suffices.
-/
import MsmVerif.Refine.CompareLemmas
open MsmVerif MsmVerif.Gen

namespace MsmVerif.Refine.Compare

/-! ### `_intersect`, `_intersect_array` -/

/-- **`_intersect` refines `Events.intersect`**: for any two integer lists and any fuel of at least the sum of their
lengths the translated merge loop terminates (no fuel error), reads only in-range positions and returns the model count. -/
theorem intersect_refines (a b : List Int) (fuel : Nat) (hf : a.length + b.length ≤ fuel) :
    Gen.MdComparison.intersect fuel a b = .ok ((Events.intersect a b : Nat) : Int) :=
  intersect_ok a b fuel hf

/-- **`_intersect_array` computes the table of pairwise merge counts** (no `IndexError`, enough fuel) -/
theorem intersect_array_refines (A B : List (List Int)) (fuel : Nat)
    (hf : ∀ a ∈ A, ∀ b ∈ B, a.length + b.length ≤ fuel) :
    Gen.MdComparison.intersect_array fuel A B
      = .ok (A.map (fun a => B.map (fun b => ((Events.intersect a b : Nat) : Rat)))) := by
  rw [intersect_array_unfold]
  have := arr_outer_loop fuel B A [] [] (pyFull2 (pyLen A) (pyLen B) (0 : Rat))
    rfl (by simp [pyFull2, pyLen]) (by intro r hr; simp [pyFull2, pyLen] at hr; simp [hr.2]) hf
  simp only [List.length_nil, Int.natCast_zero, Int.zero_add, List.nil_append] at this
  simp only [pyLen] at this ⊢
  rw [this]
  rfl

/-! ### the frame-sum kernels -/

/-- **`_compare_trajs_symmetric`** : the frame sum of `max(i12[s1,s2], i21[s2,s1])` divided by the number of frames;
no `IndexError` for in-range index trajectories and tables of the right shape. -/
theorem compare_symmetric_refines (f1 f2 : List Int) (i12 i21 : List (List Rat)) (n1 n2 : Nat)
    (hlen : f1.length = f2.length) (hN : 1 ≤ f1.length)
    (h1 : ∀ x ∈ f1, 0 ≤ x ∧ x < (n1 : Int)) (h2 : ∀ x ∈ f2, 0 ≤ x ∧ x < (n2 : Int))
    (s12 : i12.length = n1 ∧ ∀ r ∈ i12, r.length = n2) (s21 : i21.length = n2 ∧ ∀ r ∈ i21, r.length = n1) :
    Gen.MdComparison.compare_trajs_symmetric f1 f2 i12 i21
      = .ok ((((f1.zip f2).map (fun (a, b) =>
          Compare.maxQ ((i12.getD a.toNat []).getD b.toNat 0) ((i21.getD b.toNat []).getD a.toNat 0))).sum)
          / (f1.length : Nat)) := by
  rw [symmetric_unfold]
  obtain ⟨x', y', h⟩ := frames_loop f1 f2 hlen (symBody f1 f2 i12 i21)
    (fun a b => Compare.maxQ ((i12.getD a.toNat []).getD b.toNat 0) ((i21.getD b.toNat []).getD a.toNat 0))
    (by
      intro k hk1 hk2 x y acc
      unfold symBody
      have ha := h1 _ (List.getElem_mem hk1)
      have hb := h2 _ (List.getElem_mem hk2)
      rw [pyGet_nat f1 k hk1, pyGet_nat f2 k hk2]
      simp only [bind, Except.bind]
      rw [pyGet2_table i12 n1 n2 s12 _ _ ha hb, pyGet2_table i21 n2 n1 s21 _ _ hb ha]
      simp only [pure, Except.pure, pyMaxOf_eq_maxQ])
    f1.length 0 (by simp) default default 0
  simp only [Int.natCast_zero, Int.zero_add, List.drop_zero, Rat.zero_add] at h
  simp only [pyLen]
  rw [h]
  simp only [bind, Except.bind]
  exact pyTrueDiv_len _ _ hN

/-- **`_compare_trajs_directed`** : the frame sum of `i21[s2,s1]` divided by the number of frames. -/
theorem compare_directed_refines (f1 f2 : List Int) (i12 i21 : List (List Rat)) (n1 n2 : Nat)
    (hlen : f1.length = f2.length) (hN : 1 ≤ f1.length)
    (h1 : ∀ x ∈ f1, 0 ≤ x ∧ x < (n1 : Int)) (h2 : ∀ x ∈ f2, 0 ≤ x ∧ x < (n2 : Int))
    (_s12 : i12.length = n1 ∧ ∀ r ∈ i12, r.length = n2) (s21 : i21.length = n2 ∧ ∀ r ∈ i21, r.length = n1) :
    Gen.MdComparison.compare_trajs_directed f1 f2 i12 i21
      = .ok ((((f1.zip f2).map (fun (a, b) => (i21.getD b.toNat []).getD a.toNat 0)).sum) / (f1.length : Nat)) := by
  rw [directed_unfold]
  obtain ⟨x', y', h⟩ := frames_loop f1 f2 hlen (dirBody f1 f2 i21)
    (fun a b => (i21.getD b.toNat []).getD a.toNat 0)
    (by
      intro k hk1 hk2 x y acc
      unfold dirBody
      have ha := h1 _ (List.getElem_mem hk1)
      have hb := h2 _ (List.getElem_mem hk2)
      rw [pyGet_nat f1 k hk1, pyGet_nat f2 k hk2]
      simp only [bind, Except.bind]
      rw [pyGet2_table i21 n2 n1 s21 _ _ hb ha]
      simp only [pure, Except.pure])
    f1.length 0 (by simp) default default 0
  simp only [Int.natCast_zero, Int.zero_add, List.drop_zero, Rat.zero_add] at h
  simp only [pyLen]
  rw [h]
  simp only [bind, Except.bind]
  exact pyTrueDiv_len _ _ hN

/-- empty input: both kernels divide by zero (`.error .other`); the public API excludes it -/
theorem empty_input (f2 : List Int) (i12 i21 : List (List Rat)) :
    Gen.MdComparison.compare_trajs_symmetric [] f2 i12 i21 = .error .other ∧
    Gen.MdComparison.compare_trajs_directed [] f2 i12 i21 = .error .other := by
  constructor <;> rfl

/-! ### connection to `Compare.similarityIdx` -/

/-- `idx = [np.where(flat == s)[0] for s in range(n)]` -/
def idxLists (f : List Int) (n : Nat) : List (List Int) :=
  (List.range n).map (fun (s : Nat) => Compare.frameIdx f s)

/-- numpy normalisation `intersect12 = intersect / len(idx1[i])` (row `i`, column `j`) -/
def norm12 (inter : List (List Rat)) (idx1 : List (List Int)) (n2 : Nat) : List (List Rat) :=
  (List.range idx1.length).map fun i => (List.range n2).map fun j =>
    (inter.getD i []).getD j 0 / (((idx1.getD i []).length : Nat) : Rat)

/-- numpy normalisation `intersect21 = intersect.T / len(idx2[j])` (row `j`, column `i`) -/
def norm21 (inter : List (List Rat)) (idx2 : List (List Int)) (n1 : Nat) : List (List Rat) :=
  (List.range idx2.length).map fun j => (List.range n1).map fun i =>
    (inter.getD i []).getD j 0 / (((idx2.getD j []).length : Nat) : Rat)

/-- the kernel pipeline of `_compare_discretization` -/
def discretizationKernel (fuel : Nat) (f1 f2 : List Int) (n1 n2 : Nat) (sym : Bool) : Py Rat := do
  let inter ← Gen.MdComparison.intersect_array fuel (idxLists f1 n1) (idxLists f2 n2)
  if sym then
    Gen.MdComparison.compare_trajs_symmetric f1 f2 (norm12 inter (idxLists f1 n1) n2) (norm21 inter (idxLists f2 n2) n1)
  else
    Gen.MdComparison.compare_trajs_directed f1 f2 (norm12 inter (idxLists f1 n1) n2) (norm21 inter (idxLists f2 n2) n1)
theorem idxLists_length (f : List Int) (n : Nat) : (idxLists f n).length = n := by
  simp [idxLists]

theorem norm12_shape (inter : List (List Rat)) (idx1 : List (List Int)) (n2 : Nat) :
    (norm12 inter idx1 n2).length = idx1.length ∧ ∀ r ∈ norm12 inter idx1 n2, r.length = n2 := by
  constructor
  · simp [norm12]
  · intro r hr
    simp only [norm12, List.mem_map] at hr
    obtain ⟨i, _, rfl⟩ := hr
    simp

theorem norm21_shape (inter : List (List Rat)) (idx2 : List (List Int)) (n1 : Nat) :
    (norm21 inter idx2 n1).length = idx2.length ∧ ∀ r ∈ norm21 inter idx2 n1, r.length = n1 := by
  constructor
  · simp [norm21]
  · intro r hr
    simp only [norm21, List.mem_map] at hr
    obtain ⟨i, _, rfl⟩ := hr
    simp

theorem norm12_entry (inter : List (List Rat)) (idx1 : List (List Int)) (n2 i j : Nat)
    (hi : i < idx1.length) (hj : j < n2) :
    ((norm12 inter idx1 n2).getD i []).getD j 0
      = (inter.getD i []).getD j 0 / (((idx1.getD i []).length : Nat) : Rat) := by
  unfold norm12
  rw [getD_map_range' _ _ _ _ hi, getD_map_range' _ _ _ _ hj]

theorem norm21_entry (inter : List (List Rat)) (idx2 : List (List Int)) (n1 i j : Nat)
    (hj : j < idx2.length) (hi : i < n1) :
    ((norm21 inter idx2 n1).getD j []).getD i 0
      = (inter.getD i []).getD j 0 / (((idx2.getD j []).length : Nat) : Rat) := by
  unfold norm21
  rw [getD_map_range' _ _ _ _ hj, getD_map_range' _ _ _ _ hi]

/-- **kernel pipeline = model**: `_intersect_array` on the per-state frame lists, the numpy normalisation, and the
frame-sum kernel give exactly `Compare.similarityIdx` (both variants), with no error and enough fuel. -/
theorem similarity_refines (f1 f2 : List Int) (n1 n2 : Nat) (sym : Bool) (fuel : Nat)
    (hlen : f1.length = f2.length) (hN : 1 ≤ f1.length)
    (h1 : ∀ x ∈ f1, 0 ≤ x ∧ x < (n1 : Int)) (h2 : ∀ x ∈ f2, 0 ≤ x ∧ x < (n2 : Int))
    (hfuel : f1.length + f2.length ≤ fuel) :
    discretizationKernel fuel f1 f2 n1 n2 sym = .ok (Compare.similarityIdx f1 f2 n1 n2 sym) := by
  unfold discretizationKernel
  rw [intersect_array_refines _ _ fuel (by
    intro a ha b hb
    simp only [idxLists, List.mem_map] at ha hb
    obtain ⟨s, _, rfl⟩ := ha
    obtain ⟨t, _, rfl⟩ := hb
    have := frameIdx_length_le f1 s
    have := frameIdx_length_le f2 t
    omega)]
  simp only [bind, Except.bind]
  have s12 := norm12_shape (List.map (fun a => List.map (fun b => ((Events.intersect a b : Nat) : Rat)) (idxLists f2 n2))
    (idxLists f1 n1)) (idxLists f1 n1) n2
  have s21 := norm21_shape (List.map (fun a => List.map (fun b => ((Events.intersect a b : Nat) : Rat)) (idxLists f2 n2))
    (idxLists f1 n1)) (idxLists f2 n2) n1
  rw [idxLists_length] at s12 s21
  unfold Compare.similarityIdx
  simp only []
  cases sym with
  | true =>
    simp only [if_true]
    rw [compare_symmetric_refines f1 f2 _ _ n1 n2 hlen hN h1 h2 s12 s21]
    congr 3
    apply List.map_congr_left
    rintro ⟨a, b⟩ hp
    have hm := List.of_mem_zip hp
    have ha := h1 a hm.1
    have hb := h2 b hm.2
    simp only []
    rw [norm12_entry _ _ _ _ _ (by rw [idxLists_length]; omega) (by omega),
      norm21_entry _ _ _ _ _ (by rw [idxLists_length]; omega) (by omega), getD_getD_cast]
    rfl
  | false =>
    simp only [Bool.false_eq_true, if_false]
    rw [compare_directed_refines f1 f2 _ _ n1 n2 hlen hN h1 h2 s12 s21]
    congr 3
    apply List.map_congr_left
    rintro ⟨a, b⟩ hp
    have hm := List.of_mem_zip hp
    have ha := h1 a hm.1
    have hb := h2 b hm.2
    simp only []
    rw [norm21_entry _ _ _ _ _ (by rw [idxLists_length]; omega) (by omega), getD_getD_cast]
    rfl

/-! ### non-vacuity: the hypotheses hold on concrete inputs, and the theorems determine the kernel outputs -/

example : ([1, 3, 5, 7] : List Int).length + ([3, 4, 5, 9] : List Int).length ≤ 8 := by decide

example : Gen.MdComparison.intersect 8 [1, 3, 5, 7] [3, 4, 5, 9] = .ok 2 := by
  rw [intersect_refines _ _ 8 (by decide)]
  simp [Events.intersect]

/-- the fuel hypothesis is not superfluous: with too little fuel the translated loop reports `pyFuel` -/
example : Gen.MdComparison.intersect 1 [1, 2] [3, 4] = .error .other := by rfl

example : Gen.MdComparison.intersect_array 4 [[0, 3], [1, 2]] [[2, 3], [0, 1]] = .ok [[1, 1], [1, 1]] := by
  rw [intersect_array_refines _ _ 4 (by decide)]
  simp [Events.intersect]

/-- hypotheses of the frame-sum theorems on a 4-frame, 2×2-state input -/
example :
    let f1 : List Int := [0, 1, 1, 0]
    let f2 : List Int := [1, 1, 0, 0]
    let i12 : List (List Rat) := [[1/2, 1/2], [1/2, 1/2]]
    let i21 : List (List Rat) := [[1/2, 1/2], [1/2, 1/2]]
    f1.length = f2.length ∧ 1 ≤ f1.length ∧ (∀ x ∈ f1, 0 ≤ x ∧ x < ((2 : Nat) : Int)) ∧
      (∀ x ∈ f2, 0 ≤ x ∧ x < ((2 : Nat) : Int)) ∧ (i12.length = 2 ∧ ∀ r ∈ i12, r.length = 2) ∧
      (i21.length = 2 ∧ ∀ r ∈ i21, r.length = 2) := by
  decide

example :
    Gen.MdComparison.compare_trajs_symmetric [0, 1, 1, 0] [1, 1, 0, 0] [[1/2, 1/4], [1/3, 1/2]] [[1/2, 1/5], [1/6, 1/2]]
      = .ok ((1/4 + 1/2 + 1/3 + 1/2 : Rat) / 4) := by
  rw [compare_symmetric_refines _ _ _ _ 2 2 (by rfl) (by decide) (by decide) (by decide) (by decide) (by decide)]
  congr 1
  decide +kernel

example :
    Gen.MdComparison.compare_trajs_directed [0, 1, 1, 0] [1, 1, 0, 0] [[1/2, 1/4], [1/3, 1/2]] [[1/2, 1/5], [1/6, 1/2]]
      = .ok ((1/6 + 1/2 + 1/5 + 1/2 : Rat) / 4) := by
  rw [compare_directed_refines _ _ _ _ 2 2 (by rfl) (by decide) (by decide) (by decide) (by decide) (by decide)]
  congr 1
  decide +kernel

/-- the whole pipeline on a concrete pair of labelings (both variants) equals the model -/
example (sym : Bool) :
    discretizationKernel 8 [0, 1, 1, 0] [1, 1, 0, 0] 2 2 sym = .ok (Compare.similarityIdx [0, 1, 1, 0] [1, 1, 0, 0] 2 2 sym) :=
  similarity_refines _ _ 2 2 sym 8 rfl (by decide) (by decide) (by decide) (by decide)

end MsmVerif.Refine.Compare
