"""C12 — compiled and interpreted execution, and any thread count, agree (five configurations over the other streams)."""
from fractions import Fraction

import numpy as np

import core
import gen
from props import c01, c03, c05, c06, c09, c10, c13

PID = 'C12'
ANCHORS = [('src/msmhelper/msm/msm.py', ['_estimate_markov_model', '_generate_transition_count_matrix', 'row_normalize_matrix']),
           ('src/msmhelper/md/corrections.py', ['dynamical_coring', '_dynamical_coring', '_dynamical_coring_single_traj']),
           ('src/msmhelper/md/timescales.py', ['estimate_waiting_times', 'estimate_paths', '_estimate_events_singletraj', '_estimate_paths_singletraj']),
           ('src/msmhelper/md/comparison.py', ['_compare_discretization', '_compare_trajs_symmetric', '_compare_trajs_directed', '_intersect_array']),
           ('src/msmhelper/utils/_utils.py', ['matrix_power', 'find_first'])]
CONFIGS = [('jit16', {'NUMBA_DISABLE_JIT': '0', 'NUMBA_NUM_THREADS': '16'}),
           ('jit1', {'NUMBA_DISABLE_JIT': '0', 'NUMBA_NUM_THREADS': '1'}),
           ('jit2', {'NUMBA_DISABLE_JIT': '0', 'NUMBA_NUM_THREADS': '2'}),
           ('jit3', {'NUMBA_DISABLE_JIT': '0', 'NUMBA_NUM_THREADS': '3'}),
           ('nojit1', {'NUMBA_DISABLE_JIT': '1', 'NUMBA_NUM_THREADS': '1'})]
RULE = ('the case streams of C01, C05, C06, C13, C03, C09, C10 (reduced budgets) plus row_normalize_matrix / matrix_power / find_first and narrow-dtype '
        '(int8) many-state model estimation, each case executed in five configurations: JIT with 16/1/2/3 threads and NUMBA_DISABLE_JIT=1. Every '
        'configuration is compared with the first one (integers, labels and error kinds exactly; floats within 1e-12, thread counts 1e-9) and the first '
        'one with the configuration-free Lean model. Non-trivial = the case reaches a DISABLE_JIT branch or a prange kernel (all sub-streams do); '
        'distinct by sub-case.')
RELATION = 'canon(f(x)) in every configuration = canon(f(x)) in configuration jit16 = Lean model of f'
TRUSTED = ['numba scheduling, typing and typed-list conversion are executed in each configuration, not modelled; the reduction-order bound is the theorem C12.two_schedules (abstract rounding model)']
PARTIAL = 'scheduler executed, not modelled; IEEE model is an assumption of C12.tree_bound'
SUB = {'C01': c01, 'C05': c05, 'C06': c06, 'C13': c13, 'C03': c03, 'C09': c09, 'C10': c10}
BUDGET = {'C01': 120, 'C05': 120, 'C06': 120, 'C13': 150, 'C03': 25, 'C09': 20, 'C10': 40}


def _take(genr, n, rng_skip):
    out = []
    for c in genr:
        if c.get('src') == 'enum':
            if rng_skip.random() < 0.002:
                out.append(c)
        else:
            out.append(c)
        if len(out) >= n:
            break
    return out


def cases(tier, rng, boost=1):
    mult = {'quick': 1, 'thorough': 8, 'search': 3}[tier] * boost
    # narrow dtype, many states: flat indices overflow int8 in an interpreted kernel that forgets to widen
    for ns, dt in ((13, 'narrow_arrays'), (18, 'narrow_arrays')):
        idx = [gen.random_traj(rng, ns, 120, 0.3), gen.random_traj(rng, ns, 80, 0.3)]
        idx[0][:ns] = list(range(ns))
        yield dict(c01._mk(idx, 1, form=dt, src='corpus', cls='zero'), sub='C01')
        yield dict(c01._mk([[x + 1 for x in t] for t in idx], 2, form=dt, src='corpus', cls='one'), sub='C01')
    brng = core.Rng(5)
    yield dict(c01._mk([[brng.randrange(3) for _ in range(40000)] for _ in range(16)], 1, src='corpus', cls='zero'), sub='C01')
    for sid, mod in SUB.items():
        sub_rng = core.Rng(rng.randrange(1 << 30))
        for c in _take(mod.cases('quick', sub_rng, 1), BUDGET[sid] * mult, sub_rng):
            if sid == 'C13' and c['threads'] != 16:
                c = dict(c, threads=16)          # let the configuration decide the thread count
            yield dict(c, sub=sid)
    # call histories on ONE state-trajectory object (plain or lumped): a compiled branch that works on the object's own
    # buffers, or passes other data than the interpreted branch, shows up as a difference between the configurations
    yield {'op': 'objhist', 'sub': 'objhist', 'src': 'corpus', 'trajs': [[0, 0, 1, 0, 0, 0, 2, 2, 2, 1, 1, 1, 0, 2, 2]], 'lump': None,
           'ops': [['coring', 3, True], ['trajs'], ['coring', 2, False], ['est', 1], ['wt', [0], [2]]]}
    yield {'op': 'objhist', 'sub': 'objhist', 'src': 'corpus', 'trajs': [[3, 5, 7, 5, 3, 3, 9, 9, 7, 5, 3, 9, 9, 9, 3, 5]],
           'lump': {'3': 1, '5': 1, '7': 2, '9': 4}, 'ops': [['wt', [1], [4]], ['paths', [1], [4]], ['trajs'], ['est', 1]]}
    for _ in range(40 * mult):
        ns = rng.randint(3, 6)
        labs, _cls = gen.alphabet(rng, ns, cls=rng.choice(['zero', 'one', 'gapped', 'negative']))
        idx = gen.random_trajs(rng, ns, rng.randint(1, 3), 12, 40, sticky=0.7)
        trajs = gen.relabel(idx, labs)
        occ = sorted({x for t in trajs for x in t})
        lump = None
        if rng.random() < 0.5 and len(occ) >= 3:
            nm = rng.randint(2, len(occ) - 1)
            ml = rng.sample(range(1, 40), nm)
            asg = [rng.randrange(nm) for _ in occ]
            for a_ in range(nm):
                asg[a_] = a_
            rng.shuffle(asg)
            lump = {str(o): ml[a_] for o, a_ in zip(occ, asg)}
        labels = sorted(set(lump.values())) if lump else occ
        ops = []
        for _i in range(rng.randint(3, 7)):
            kind = rng.choice(['coring', 'coring', 'est', 'wt', 'paths', 'trajs', 'its'])
            if kind == 'coring':
                ops.append(['coring', rng.randint(1, 4), rng.random() < 0.6])
            elif kind in ('est', 'its'):
                ops.append([kind, rng.randint(1, 3)])
            elif kind in ('wt', 'paths'):
                a_ = rng.choice(labels)
                rest = [x for x in labels if x != a_]
                ops.append([kind, [a_], [rng.choice(rest)] if rest else [a_ + 1]])
            else:
                ops.append(['trajs'])
        yield {'op': 'objhist', 'sub': 'objhist', 'src': 'rand', 'trajs': trajs, 'lump': lump, 'ops': ops}
    for _ in range(60 * mult):
        kind = rng.choice(['rownorm', 'matpow', 'find_first'])
        if kind == 'find_first':
            l = [rng.randint(-3, 6) for _ in range(rng.randint(0, 12))]
            yield {'op': 'utils', 'kind': kind, 'list': l, 'val': rng.randint(-3, 7), 'sub': 'utils', 'src': 'rand'}
        else:
            n = rng.randint(1, 5)
            M = [[rng.choice([0, 0, 1, 2, 3, 5]) / rng.choice([1, 2, 4, 8]) for _ in range(n)] for _ in range(n)]
            # memory layout / dtype of the argument: the compiled and the interpreted function must accept the same arrays (an eager numba signature would not)
            layout = rng.choice(['c', 'c', 'fortran', 'strided', 'readonly', 'int64', 'int32', 'uint8', 'float32']) if kind == 'rownorm' else rng.choice(['c', 'c', 'fortran', 'strided'])
            if layout in ('int64', 'int32', 'uint8'):
                M = [[float(rng.choice([0, 0, 1, 2, 3, 5, 17])) for _ in range(n)] for _ in range(n)]
            yield {'op': 'utils', 'kind': kind, 'M': M, 'k': rng.randint(0, 6), 'sub': 'utils', 'src': 'rand', 'layout': layout}


def _real_objhist(case):
    import msmhelper as mh
    trajs = [np.array(t, dtype=np.int64) for t in case['trajs']]
    if case.get('lump'):
        macro = [np.array([case['lump'][str(x)] for x in t], dtype=np.int64) for t in case['trajs']]
        obj = mh.LumpedStateTraj(macro, trajs)
        expect = [m.tolist() for m in macro]
    else:
        obj = mh.StateTraj(trajs)
        expect = case['trajs']
    out = []
    for op in case['ops']:
        try:
            if op[0] == 'coring':
                v = [t.tolist() for t in mh.md.dynamical_coring(obj, op[1], iterative=op[2]).trajs]
            elif op[0] == 'est':
                T, st = obj.estimate_markov_model(op[1])
                v = {'T': [[core.rat_str(float(x)) for x in row] for row in np.asarray(T)], 'states': [int(x) for x in st]}
            elif op[0] == 'its':
                r = mh.msm.implied_timescales(obj, [op[1]])
                v = [['nan' if x != x else core.rat_str(float(x)) for x in row] for row in np.asarray(r, dtype=np.float64)]
            elif op[0] == 'wt':
                v = [int(x) for x in mh.md.estimate_waiting_times(obj, op[1], op[2])]
            elif op[0] == 'paths':
                d = mh.md.estimate_paths(obj, op[1], op[2])
                v = sorted([[int(x) for x in k], sorted(int(x) for x in val)] for k, val in d.items())
            else:
                v = [t.tolist() for t in obj.trajs]
                if v != expect:
                    v = {'WRONG-TRAJS': v}
        except Exception as e:  # noqa
            v = {'err': core.err_name(e)}
        out.append(v)
    return {'ok': out}


def real(case):
    if case['sub'] == 'objhist':
        return _real_objhist(case)
    if case['sub'] != 'utils':
        return SUB[case['sub']].real(case)
    import msmhelper as mh

    def arr():
        a = np.array(case['M'], dtype=np.float64)
        lay = case.get('layout', 'c')
        if lay == 'fortran':
            a = np.asfortranarray(a)
        elif lay == 'strided':
            a = np.repeat(a, 2, axis=1)[:, ::2]
        elif lay == 'readonly':
            a.setflags(write=False)
        elif lay in ('int64', 'int32', 'uint8', 'float32'):
            a = a.astype(lay)
        return a

    def run():
        if case['kind'] == 'rownorm':
            return [[core.rat_str(float(v)) for v in row] for row in mh.msm.row_normalize_matrix(arr())]
        if case['kind'] == 'matpow':
            return [[core.rat_str(float(v)) for v in row] for row in mh.utils.matrix_power(arr(), case['k'])]
        return int(mh.utils.find_first(case['val'], np.array(case['list'], dtype=np.int64)))
    out = core.call(run)
    out.pop('msg', None)
    return out


def _first(obs):
    return obs['configs'][CONFIGS[0][0]]


def request(case, obs):
    o = _first(obs)
    if case['sub'] == 'objhist':
        return {'op': 'ping'}
    if case['sub'] != 'utils':
        return SUB[case['sub']].request(case, o)
    if 'err' in o:
        return {'op': 'ping'}
    r = {'op': 'utils', 'kind': case['kind']}
    if case['kind'] == 'find_first':
        r.update(list=case['list'], val=case['val'])
    else:
        r.update(M=[[core.rat_str(v) for v in row] for row in case['M']], k=case['k'])
    return r


def _is_rat(s):
    if not isinstance(s, str) or not s:
        return False
    t = s[1:] if s[0] == '-' else s
    return t.replace('/', '', 1).isdigit()


def _close(a, b, tol):
    """structural comparison: rationals within tol, everything else exactly"""
    if _is_rat(a) and _is_rat(b):
        return abs(Fraction(a) - Fraction(b)) <= tol
    if isinstance(a, dict) and isinstance(b, dict):
        ka = {k for k in a if k not in ('msg', 'us', 'targeted', 'why')}
        return ka == {k for k in b if k not in ('msg', 'us', 'targeted', 'why')} and all(_close(a[k], b[k], tol) for k in ka)
    if isinstance(a, list) and isinstance(b, list):
        return len(a) == len(b) and all(_close(x, y, tol) for x, y in zip(a, b))
    return a == b


def configs_agree(obs):
    base = _first(obs)
    bad = []
    for name, _env in CONFIGS[1:]:
        o = obs['configs'][name]
        tol = Fraction(1, 10 ** 12) if name.startswith('nojit') else Fraction(1, 10 ** 9)
        if not _close(base, o, tol):
            bad.append(name)
    return bad


def agree(case, obs, reply):
    if configs_agree(obs):
        return False
    o = _first(obs)
    if case['sub'] == 'objhist':
        return 'ok' in o and 'WRONG-TRAJS' not in str(o['ok'])
    if case['sub'] != 'utils':
        return SUB[case['sub']].agree(case, o, reply)
    if 'err' in o:
        return False
    m = reply['model']['ok']
    if case.get('layout') == 'float32':
        # single-precision input: the configurations must agree with each other (checked above, 1e-12); the exact model is only met to single precision
        return _close(m, o['ok'], Fraction(1, 10 ** 5))
    return _close(m, o['ok'], Fraction(1, 10 ** 9)) if case['kind'] != 'find_first' else m == o['ok']


def holds(case, obs, reply):
    if configs_agree(obs):
        return False
    o = _first(obs)
    if case['sub'] == 'objhist':
        return agree(case, obs, reply)
    if case['sub'] != 'utils':
        return SUB[case['sub']].holds(case, o, reply)
    return agree(case, obs, reply)


def nontrivial(case, obs, reply):
    return True


def key(case):
    if case['sub'] == 'objhist':
        return ['objhist', case['trajs'], case['lump'], case['ops']]
    return [case['sub'], SUB[case['sub']].key(case) if case['sub'] != 'utils' else [case['kind'], case.get('M'), case.get('k'), case.get('list'), case.get('val')]]


def classify(case, obs, reply):
    bad = configs_agree(obs)
    return '%s/%s/%s' % (case['sub'], _first(obs).get('err', 'ok'), 'configs-agree' if not bad else 'DIFFER:' + ','.join(bad))


def known_match(k, case, obs, reply):
    return False


def shrink(case):
    if case['sub'] == 'objhist':
        for i in range(len(case['ops'])):
            yield dict(case, ops=case['ops'][:i] + case['ops'][i + 1:])
        return
    if case['sub'] != 'utils' and hasattr(SUB[case['sub']], 'shrink'):
        for c in SUB[case['sub']].shrink(case):
            yield dict(c, sub=case['sub'])
