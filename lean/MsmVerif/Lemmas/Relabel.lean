/-
Lemmas/Relabel.lean — helper lemmas for C15 (relabelling utilities of `utils/_utils.py`): the two formulations of
"simultaneous substitution" agree, `guardOk` implies the hypotheses of `shiftFlat_eq_subst'`, `shiftFlat` keeps the
length, `rename_by_index` / `rename_by_population` as rank / position maps, counting lemmas for `unique`.
Core Lean only.
-/
import MsmVerif.Model.Relabel
import MsmVerif.Lemmas.StateTraj

namespace MsmVerif.Relabel
open MsmVerif

/-! ### the two formulations of `subst` -/

theorem foldl_eq_find?_reverse (ps : List (Int × Int)) (x a : Int) :
    ps.foldl (fun acc p => if p.1 = x then p.2 else acc) a
      = match ps.reverse.find? (fun p => p.1 == x) with
        | some p => p.2
        | none => a := by
  induction ps generalizing a with
  | nil => rfl
  | cons p ps ih =>
    simp only [List.foldl_cons, List.reverse_cons, List.find?_append, ih]
    cases h : ps.reverse.find? (fun p => p.1 == x) with
    | some q => simp
    | none =>
      by_cases hp : p.1 = x <;> simp [hp]

/-- `Relabel.subst` (search the reversed pair list) = `MsmVerif.subst` (fold, later pairs overwrite) -/
theorem subst_eq_subst (old new : List Int) (x : Int) :
    subst old new x = MsmVerif.subst old new x := by
  unfold subst MsmVerif.subst
  rw [foldl_eq_find?_reverse]
  rfl

theorem subst_eq_subst_fun (old new : List Int) : subst old new = MsmVerif.subst old new :=
  funext (subst_eq_subst old new)

/-! ### `guardOk` is strong enough for `shiftFlat_eq_subst'` -/

/-- what the executable guard says, as propositions -/
theorem guardOk_spec {vals old new : List Int} (h : guardOk vals old new = true) :
    ∃ dmin dmax nmin nmax, minimum? vals = some dmin ∧ maximum? vals = some dmax ∧
      minimum? new = some nmin ∧ maximum? new = some nmax ∧
      old.length = new.length ∧ (∀ o ∈ old, dmin ≤ o ∧ o ≤ dmax) ∧
      max dmax nmax - min dmin nmin < 2147483648 ∧ -2147483648 ≤ min dmin nmin := by
  unfold guardOk at h
  split at h
  · next dmin dmax nmin nmax h1 h2 h3 h4 =>
    simp only [Bool.and_eq_true, beq_iff_eq, List.all_eq_true, decide_eq_true_eq] at h
    exact ⟨dmin, dmax, nmin, nmax, h1, h2, h3, h4, h.1.1.1, h.1.1.2, h.1.2, h.2⟩
  · exact absurd h (by simp)

theorem shiftFlat_of_guardOk {vals old new : List Int} (h : guardOk vals old new = true) :
    shiftFlat vals old new = .ok (vals.map (MsmVerif.subst old new)) := by
  obtain ⟨dmin, dmax, nmin, nmax, h1, h2, h3, h4, hlen, hold, h32, _⟩ := guardOk_spec h
  have hdmax := maximum?_spec h2
  have hnmax := maximum?_spec h4
  apply shiftFlat_eq_subst' h1 h3 h2 hlen
  · intro o ho
    have := hold o ho
    omega
  · intro x hx
    rcases List.mem_append.mp hx with hx | hx
    · have := hdmax.2 x hx; omega
    · have := hnmax.2 x hx; omega

/-! ### structure -/

theorem shiftFlat_length {data old new r : List Int} (h : shiftFlat data old new = .ok r) :
    r.length = data.length := by
  unfold shiftFlat at h
  split at h
  · split at h
    · exact absurd h (by simp)
    · simp only at h
      split at h
      · exact absurd h (by simp)
      · simp only [Except.ok.injEq] at h
        subst h
        simp
  · exact absurd h (by simp)

theorem shiftData_ok_iff {d r : Data} {old new : List Int} :
    shiftData d old new = .ok r ↔ shiftFlat d.vals old new = .ok r.vals ∧ r.shape = d.shape := by
  unfold shiftData
  cases h : shiftFlat d.vals old new with
  | error e => simp [Except.map]
  | ok v =>
    obtain ⟨rv, rs⟩ := r
    simp only [Except.map, Except.ok.injEq, Data.mk.injEq]
    constructor
    · rintro ⟨rfl, rfl⟩; exact ⟨rfl, rfl⟩
    · rintro ⟨rfl, rfl⟩; exact ⟨rfl, rfl⟩

/-! ### `rename_by_index` -/

theorem flatten_singleton' (l : List Int) : [l].flatten = l := by simp

theorem states_singleton (l : List Int) : states [l] = sortDedup l := by
  simp [states]

theorem shiftFlat_sortDedup_eq_rank {l : List Int} {lo hi : Int} (hw : LabelWindow [l] lo hi) (hne : l ≠ []) :
    shiftFlat l (sortDedup l) ((List.range (sortDedup l).length).map (fun (i : Nat) => (i : Int)))
      = .ok (l.map (fun x => (rank (sortDedup l) x : Int))) := by
  have h := shiftFlat_states_eq_rank hw (by simpa using hne)
  rw [states_singleton, flatten_singleton'] at h
  rw [natCast_range_eq_arange]
  exact h

theorem map_getD_rank (l : List Int) :
    (l.map (fun x => (rank (sortDedup l) x : Int))).map (fun i => (sortDedup l).getD i.toNat 0) = l := by
  rw [List.map_map]
  conv => rhs; rw [← List.map_id l]
  apply List.map_congr_left
  intro x hx
  exact labelOf_rank' (mem_sortDedup.mpr hx)

/-! ### `rename_by_population` -/

/-- `[1, 2, …, n]` -/
theorem range_succ_eq_arange (n : Nat) :
    (List.range n).map (fun (i : Nat) => (i : Int) + 1) = arange 1 n := by
  simp only [arange]
  apply List.map_congr_left
  intro i _
  omega

/-- number of distinct labels inside a window -/
theorem length_sortDedup_le {l : List Int} {lo hi : Int} (hmem : ∀ x ∈ l, lo ≤ x ∧ x ≤ hi) (hne : l ≠ []) :
    ((sortDedup l).length : Int) ≤ hi - lo + 1 := by
  have hss : sortDedup l ≠ [] := by
    obtain ⟨x, hx⟩ := List.exists_mem_of_ne_nil _ hne
    exact List.ne_nil_of_mem (mem_sortDedup.mpr hx)
  have hpos : 0 < (sortDedup l).length := List.length_pos_iff.mpr hss
  have h0 := add_le_getElem_of_pairwise (sortDedup_pairwise l) ((sortDedup l).length - 1) (by omega)
  have h1 := hmem _ (mem_sortDedup.mp (List.getElem_mem hpos))
  have h2 := hmem _ (mem_sortDedup.mp (List.getElem_mem (by omega : (sortDedup l).length - 1 < (sortDedup l).length)))
  omega

theorem subst_perm_eq_idxOf {perm : List Int} (hnd : perm.Nodup) {x : Int} (hx : x ∈ perm) :
    MsmVerif.subst perm (arange 1 perm.length) x = (perm.idxOf x : Int) + 1 := by
  have hk : rank perm x < perm.length := rank_lt hx
  have hk' : rank perm x < (arange 1 perm.length).length := by simpa [arange] using hk
  have := subst_getElem_of_nodup (new := arange 1 perm.length) hnd hk hk'
  rw [getElem_rank hx] at this
  rw [this]
  simp only [arange, List.getElem_map, List.getElem_range, rank]
  omega

theorem shiftFlat_perm_eq_idxOf {l perm : List Int} {lo hi : Int}
    (hmem : ∀ x ∈ l, lo ≤ x ∧ x ≤ hi) (hlo : lo ≤ 1) (hnarrow : hi - 2 * lo + 1 < 2147483648)
    (hne : l ≠ []) (hp : perm.Perm (sortDedup l)) :
    shiftFlat l perm ((List.range perm.length).map (fun (i : Nat) => (i : Int) + 1))
      = .ok (l.map (fun x => (perm.idxOf x : Int) + 1)) := by
  have hnd : perm.Nodup := hp.nodup_iff.mpr (sortDedup_nodup l)
  have hmemp : ∀ x, x ∈ perm ↔ x ∈ l := fun x => hp.mem_iff.trans mem_sortDedup
  have hlen : perm.length = (sortDedup l).length := hp.length_eq
  have hn := length_sortDedup_le hmem hne
  obtain ⟨x0, hx0⟩ := List.exists_mem_of_ne_nil _ hne
  have hpne : perm ≠ [] := List.ne_nil_of_mem ((hmemp x0).mpr hx0)
  rw [range_succ_eq_arange]
  rw [shiftFlat_eq_subst (lo := lo) (hi := hi - lo + 1) hne]
  · congr 1
    apply List.map_congr_left
    intro x hx
    exact subst_perm_eq_idxOf hnd ((hmemp x).mpr hx)
  · simpa [arange] using hpne
  · simp [arange]
  · intro o ho; exact ⟨o, List.mem_append_left _ ((hmemp o).mp ho), Int.le_refl _⟩
  · intro o ho; exact ⟨o, (hmemp o).mp ho, Int.le_refl _⟩
  · intro x hx
    rcases List.mem_append.mp hx with hx | hx
    · have := hmem x hx; omega
    · have := mem_arange.mp hx; omega
  · omega

theorem idxOf_eq_iff {perm : List Int} (hnd : perm.Nodup) {x : Int} (hx : x ∈ perm) {i : Nat} (hi : i < perm.length) :
    perm.idxOf x = i ↔ x = perm[i] := by
  constructor
  · intro h
    have := getElem_rank hx
    simp only [rank, h] at this
    exact this.symm
  · intro h
    subst h
    exact rank_getElem hnd hi

theorem count_map_idxOf {perm l : List Int} (hnd : perm.Nodup) (hall : ∀ x ∈ l, x ∈ perm) {i : Nat}
    (hi : i < perm.length) :
    (l.map (fun x => (perm.idxOf x : Int) + 1)).count ((i : Int) + 1) = l.count perm[i] := by
  induction l with
  | nil => rfl
  | cons x xs ih =>
    simp only [List.map_cons, List.count_cons]
    rw [ih (fun y hy => hall y (List.mem_cons_of_mem _ hy))]
    congr 1
    have := idxOf_eq_iff hnd (hall x List.mem_cons_self) hi
    by_cases hxi : x = perm[i]
    · have h2 := this.mpr hxi
      rw [h2]
      simp [hxi]
    · have h2 : ¬ perm.idxOf x = i := fun h => hxi (this.mp h)
      have h3 : ¬ ((perm.idxOf x : Int) + 1 = (i : Int) + 1) := by omega
      simp [hxi, h3]

theorem pop_new_eq_pop_perm {perm l : List Int} (hnd : perm.Nodup) (hall : ∀ x ∈ l, x ∈ perm) :
    (List.range perm.length).map (fun (i : Nat) => (l.map (fun x => (perm.idxOf x : Int) + 1)).count ((i : Int) + 1))
      = perm.map (fun x => l.count x) := by
  apply List.ext_getElem
  · simp
  · intro i h1 h2
    simp only [List.length_map, List.length_range] at h1
    simp only [List.getElem_map, List.getElem_range]
    exact count_map_idxOf hnd hall h1

theorem map_getD_idxOf {perm l : List Int} (hall : ∀ x ∈ l, x ∈ perm) :
    (l.map (fun x => (perm.idxOf x : Int) + 1)).map (fun v => perm.getD (v - 1).toNat 0) = l := by
  rw [List.map_map]
  conv => rhs; rw [← List.map_id l]
  apply List.map_congr_left
  intro x hx
  have := labelOf_rank' (hall x hx)
  simp only [labelOf, rank] at this
  simp only [Function.comp_apply, id_eq]
  rw [show ((perm.idxOf x : Int) + 1 - 1) = (perm.idxOf x : Int) by omega]
  exact this

/-! ### `unique` with counts -/

theorem sum_map_add (s : List Int) (f g : Int → Nat) :
    (s.map (fun x => f x + g x)).sum = (s.map f).sum + (s.map g).sum := by
  induction s with
  | nil => rfl
  | cons a s ih => simp only [List.map_cons, List.sum_cons, ih]; omega

theorem sum_map_ite_of_not_mem {s : List Int} {y : Int} (hy : y ∉ s) :
    (s.map (fun x => if (y == x) = true then 1 else 0)).sum = 0 := by
  induction s with
  | nil => rfl
  | cons a s ih =>
    simp only [List.mem_cons, not_or] at hy
    simp only [List.map_cons, List.sum_cons, ih hy.2]
    simp [hy.1]

theorem sum_map_ite_eq_one {s : List Int} (hnd : s.Nodup) {y : Int} (hy : y ∈ s) :
    (s.map (fun x => if (y == x) = true then 1 else 0)).sum = 1 := by
  induction s with
  | nil => simp at hy
  | cons a s ih =>
    rw [List.nodup_cons] at hnd
    simp only [List.map_cons, List.sum_cons]
    rcases List.mem_cons.mp hy with rfl | hy'
    · rw [sum_map_ite_of_not_mem hnd.1]; simp
    · have : y ≠ a := fun h => hnd.1 (h ▸ hy')
      rw [ih hnd.2 hy']; simp [this]

/-- the populations of a duplicate-free label list that covers the data add up to the number of frames -/
theorem sum_count_eq_length (s l : List Int) (hnd : s.Nodup) (hall : ∀ x ∈ l, x ∈ s) :
    (s.map (fun x => l.count x)).sum = l.length := by
  induction l with
  | nil =>
    clear hnd hall
    induction s with
    | nil => rfl
    | cons a s ih => simpa using ih
  | cons y ys ih =>
    simp only [List.count_cons, List.length_cons]
    rw [sum_map_add s (fun x => ys.count x) (fun x => if (y == x) = true then 1 else 0),
      ih (fun x hx => hall x (List.mem_cons_of_mem _ hx)), sum_map_ite_eq_one hnd (hall y List.mem_cons_self)]

theorem nonIncreasingNat_iff_pairwise (l : List Nat) : nonIncreasingNat l = true ↔ l.Pairwise (· ≥ ·) := by
  induction l with
  | nil => simp [nonIncreasingNat]
  | cons x xs ih =>
    cases xs with
    | nil => simp [nonIncreasingNat]
    | cons y ys =>
      simp only [nonIncreasingNat, Bool.and_eq_true, decide_eq_true_eq, ih]
      constructor
      · rintro ⟨hxy, hp⟩
        refine List.pairwise_cons.mpr ⟨?_, hp⟩
        intro a ha
        rcases List.mem_cons.mp ha with rfl | ha
        · exact hxy
        · have := (List.pairwise_cons.mp hp).1 a ha
          omega
      · intro hp
        have := List.pairwise_cons.mp hp
        exact ⟨this.1 y List.mem_cons_self, this.2⟩

end MsmVerif.Relabel
