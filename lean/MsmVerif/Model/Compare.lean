/-
Model/Compare.lean — executable model of `src/msmhelper/md/comparison.py` (`compare_discretization`) in
exact arithmetic, and the contingency-table Spec of property C13.
-/
import MsmVerif.Model.Basic
import MsmVerif.Model.Events

namespace MsmVerif.Compare

/-- `np.where(flat == state)[0]` : ascending frame indices carrying `state` -/
def frameIdx (flat : List Int) (state : Int) : List Int :=
  ((List.range flat.length).filter (fun i => flat.getD i 0 == state)).map (fun (i : Nat) => (i : Int))

def maxQ (a b : Rat) : Rat := if a < b then b else a

/-- `_compare_discretization` on the two flattened index trajectories with `n1`, `n2` states -/
def similarityIdx (f1 f2 : List Int) (n1 n2 : Nat) (symmetric : Bool) : Rat :=
  let idx1 := (List.range n1).map (fun (s : Nat) => frameIdx f1 s)
  let idx2 := (List.range n2).map (fun (s : Nat) => frameIdx f2 s)
  let inter : List (List Nat) := idx1.map (fun a => idx2.map (fun b => Events.intersect a b))
  -- intersect12[i][j] = n_ij / |idx1[i]| ; intersect21[j][i] = n_ij / |idx2[j]|
  let i12 (i j : Nat) : Rat := ((inter.getD i []).getD j 0 : Nat) / ((idx1.getD i []).length : Nat)
  let i21 (j i : Nat) : Rat := ((inter.getD i []).getD j 0 : Nat) / ((idx2.getD j []).length : Nat)
  let terms := (f1.zip f2).map (fun (s1, s2) =>
    if symmetric then maxQ (i12 s1.toNat s2.toNat) (i21 s2.toNat s1.toNat) else i21 s2.toNat s1.toNat)
  terms.sum / (f1.length : Nat)

/-- public `md.compare_discretization(traj1, traj2, method)`; `method` : 0 symmetric, 1 directed, other = unknown -/
def compare (t1 t2 : Trajs) (method : Nat) : Except Err Rat :=
  match StateTraj.mk' t1, StateTraj.mk' t2 with
  | .ok s1, .ok s2 =>
    if method > 1 then .error .value
    else if s1.nframes ≠ s2.nframes then .error .value
    else if s1.nstates = 1 ∨ s2.nstates = 1 then .error .value
    else .ok (similarityIdx s1.idx.flatten s2.idx.flatten s1.nstates s2.nstates (method == 0))
  | .error e, _ => .error e
  | _, .error e => .error e

/-! ### Spec : contingency table -/

/-- `n_ij` : frames with label `a` in the first and `b` in the second labeling -/
def nij (l1 l2 : List Int) (a b : Int) : Nat := (l1.zip l2).count (a, b)
def rowTot (l1 : List Int) (a : Int) : Nat := l1.count a
def colTot (l2 : List Int) (b : Int) : Nat := l2.count b

/-- `(1/N) Σ_ij n_ij² / n_·j` -/
def directedSpec (l1 l2 : List Int) : Rat :=
  let A := sortDedup l1
  let B := sortDedup l2
  ((A.map (fun a => (B.map (fun b =>
    ((nij l1 l2 a b : Nat) : Rat) * (nij l1 l2 a b : Nat) / (colTot l2 b : Nat))).sum)).sum) / (l1.length : Nat)

/-- `(1/N) Σ_ij n_ij · max(n_ij/n_i·, n_ij/n_·j)` -/
def symmetricSpec (l1 l2 : List Int) : Rat :=
  let A := sortDedup l1
  let B := sortDedup l2
  ((A.map (fun a => (B.map (fun b =>
    ((nij l1 l2 a b : Nat) : Rat) *
      maxQ (((nij l1 l2 a b : Nat) : Rat) / (rowTot l1 a : Nat)) (((nij l1 l2 a b : Nat) : Rat) / (colTot l2 b : Nat)))).sum)).sum)
    / (l1.length : Nat)

/-- the same two quantities frame by frame (how the code sums them) -/
def directedFrames (l1 l2 : List Int) : Rat :=
  (((l1.zip l2).map (fun (a, b) => ((nij l1 l2 a b : Nat) : Rat) / (colTot l2 b : Nat))).sum) / (l1.length : Nat)

def symmetricFrames (l1 l2 : List Int) : Rat :=
  (((l1.zip l2).map (fun (a, b) =>
    maxQ (((nij l1 l2 a b : Nat) : Rat) / (rowTot l1 a : Nat)) (((nij l1 l2 a b : Nat) : Rat) / (colTot l2 b : Nat)))).sum)
    / (l1.length : Nat)

def absQ (r : Rat) : Rat := if r < 0 then -r else r

/-- oracle on the real output (float as exact rational): formula within 1e-9; rejection exactly for unknown
method, unequal frame counts, or a single-state labeling -/
def holds (t1 t2 : Trajs) (method : Nat) (obs : Except Err Rat) : Bool :=
  let l1 := t1.flatten
  let l2 := t2.flatten
  let bad := method > 1 || l1.length != l2.length || (sortDedup l1).length == 1 || (sortDedup l2).length == 1
  match obs with
  | .error e => bad && e == .value
  | .ok v =>
    !bad && decide (absQ (v - (if method == 0 then symmetricSpec l1 l2 else directedSpec l1 l2)) ≤ (1 : Rat) / 1000000000)

end MsmVerif.Compare
