/-
Refine/CummatLemmas.lean — helper lemmas for task RP9 (`Refine/Cummat.lean`): the numpy-runtime primitives used by the translated
`_get_cummat` (row / row-tail / column assignment, fancy read, `cumsum`), the loop of `_get_cummat` as a map over the rows,
and the closed form of one entry of the model's `cumRow`.
-/
import MsmVerif.Gen.MsmCummat
import MsmVerif.Model.Mcmc
import MsmVerif.Lemmas.Mcmc

namespace MsmVerif.Refine.Cummat
open MsmVerif MsmVerif.Gen

/-! ### runtime basics -/

theorem pyGet_nat {α : Type} (l : List α) (k : Nat) (h : k < l.length) :
    pyGet l (k : Int) = .ok l[k] := by
  unfold pyGet normIdx
  have h1 : (0:Int) ≤ (k:Int) := by omega
  have h2 : (k:Int) < (l.length : Int) := by omega
  simp [h1, h2, h]

theorem pySet_nat {α : Type} (l : List α) (k : Nat) (v : α) (h : k < l.length) :
    pySet l (k : Int) v = .ok (l.set k v) := by
  unfold pySet normIdx
  have h1 : (0:Int) ≤ (k:Int) := by omega
  have h2 : (k:Int) < (l.length : Int) := by omega
  simp [h1, h2]

theorem pySet_neg_one {α : Type} (l : List α) (v : α) (h : 0 < l.length) :
    pySet l (-1) v = .ok (l.set (l.length - 1) v) := by
  unfold pySet normIdx
  have h2 : (0:Int) ≤ -1 + (l.length : Int) := by omega
  have h3 : (-1 + (l.length : Int)).toNat = l.length - 1 := by omega
  simp [h2, h3]

theorem pyGet_mid {α : Type} (pre suf : List α) (x : α) (k : Nat) (hk : pre.length = k) :
    pyGet (pre ++ x :: suf) (k : Int) = .ok x := by
  subst hk
  rw [pyGet_nat _ _ (by simp)]
  simp

theorem pySet_mid {α : Type} (pre suf : List α) (x v : α) (k : Nat) (hk : pre.length = k) :
    pySet (pre ++ x :: suf) (k : Int) v = .ok (pre ++ v :: suf) := by
  subst hk
  rw [pySet_nat _ _ _ (by simp)]
  simp

theorem ok_bind {α β : Type} (a : α) (f : α → Except Err β) : (Except.ok a >>= f) = f a := rfl

theorem npSetRow_mid {α : Type} (pre suf : List (List α)) (old new : List α) (k : Nat) (hk : pre.length = k)
    (hlen : old.length = new.length) :
    npSetRow (pre ++ old :: suf) (k : Int) new = .ok (pre ++ new :: suf) := by
  unfold npSetRow
  rw [pyGet_mid _ _ _ _ hk, ok_bind, if_pos hlen, pySet_mid _ _ _ _ _ hk]

theorem npSetRowFrom_mid {α : Type} (pre suf : List (List α)) (old : List α) (k : Nat) (hk : pre.length = k)
    (lo : Int) (x : α) :
    npSetRowFrom (pre ++ old :: suf) (k : Int) lo x
      = .ok (pre ++ (old.take (pyBound old.length lo) ++ (old.drop (pyBound old.length lo)).map (fun _ => x)) :: suf) := by
  unfold npSetRowFrom
  rw [pyGet_mid _ _ _ _ hk, ok_bind, pySet_mid _ _ _ _ _ hk]

theorem npTake_nat (row : List Rat) (order : List Nat) (h : ∀ j ∈ order, j < row.length) :
    npTake row (order.map Int.ofNat) = .ok (order.map (fun j => row.getD j 0)) := by
  unfold npTake
  induction order with
  | nil => rfl
  | cons j js ih =>
    have hj : j < row.length := h j (by simp)
    rw [List.map_cons, List.mapM_cons, show Int.ofNat j = (j : Int) from rfl, pyGet_nat _ _ hj, ok_bind,
      ih (fun i hi => h i (by simp [hi])), ok_bind]
    simp [List.getD_eq_getElem?_getD, hj]
    rfl

/-! ### `np.cumsum` -/

theorem cumsum_fold (v : List Rat) (acc : List Rat) (s : Rat) :
    (v.foldl (fun (acc : List Rat × Rat) x => (acc.1 ++ [acc.2 + x], acc.2 + x)) (acc, s)).1
      = acc ++ (Mcmc.cumsum v).map (fun c => s + c) := by
  induction v generalizing acc s with
  | nil => simp [Mcmc.cumsum]
  | cons x xs ih =>
    rw [List.foldl_cons, ih]
    simp only [Mcmc.cumsum, List.map_cons, List.map_map, List.append_assoc, List.singleton_append]
    congr 2
    apply List.map_congr_left
    intro c _
    simp only [Function.comp]
    rw [Rat.add_assoc, Rat.add_comm x c]

theorem npCumsum_eq (v : List Rat) : npCumsum v = Mcmc.cumsum v := by
  unfold npCumsum
  rw [cumsum_fold]
  simp

/-! ### enumerate -/

def enumI {α : Type} : Int → List α → List (Int × α)
  | _, [] => []
  | a, x :: xs => (a, x) :: enumI (a + 1) xs

theorem pyRange_cons (a : Int) (m : Nat) : pyRange a (a + (m + 1 : Nat)) = a :: pyRange (a + 1) (a + 1 + (m : Nat)) := by
  unfold pyRange
  have e1 : (a + ((m + 1 : Nat) : Int) - a).toNat = m + 1 := by omega
  have e2 : (a + 1 + (m : Int) - (a + 1)).toNat = m := by omega
  rw [e1, e2, List.range_succ_eq_map]
  simp [Function.comp_def]
  intro k _
  omega

theorem zip_pyRange {α : Type} (a : Int) (l : List α) : (pyRange a (a + (l.length : Nat))).zip l = enumI a l := by
  induction l generalizing a with
  | nil => simp [enumI]
  | cons x xs ih =>
    rw [List.length_cons, pyRange_cons, List.zip_cons_cons, ih]
    rfl

theorem pyEnumerate_eq {α : Type} (l : List α) : pyEnumerate l = enumI 0 l := by
  unfold pyEnumerate pyLen
  have := zip_pyRange 0 l
  simpa using this

/-! ### the loop of `_get_cummat` -/

/-- the cumulative row before the final "last column := 1": running sums in the oracle's order, forced to 1 from position
`npositive - 1` on when the row has a non-zero entry -/
def rowPre (row : List Rat) (order : List Nat) : List Rat :=
  let cs := Mcmc.cumsum (order.map (fun j => row.getD j 0))
  let np := (row.filter (fun p => p != 0)).length
  if np = 0 then cs else cs.take (np - 1) ++ (cs.drop (np - 1)).map (fun _ => (1 : Rat))

/-- the loop body of the translated `_get_cummat`, verbatim -/
def body (ext_argsort : List Rat → Py (List Int)) :
    Int × List Rat → List Int × Int × List (List Rat) × List (List Int) →
      Py (ForInStep (List Int × Int × List (List Rat) × List (List Int))) :=
  fun x __s =>
    have __s := __s.2;
    have __s := __s.2;
    have cummat_perm := __s.1;
    have state_perm := __s.2;
    match x with
    | (idx, row) => do
      let t1 ← ext_argsort row
      have idx_sort : List Int := npReverse t1
      let t2 ← npTake row idx_sort
      let cummat_perm ← npSetRow cummat_perm idx (npCumsum t2)
      let state_perm ← npSetRow state_perm idx idx_sort
      have npositive : Int := npCountNonzero row
      if (npositive != 0) = true then do
          let cummat_perm ← npSetRowFrom cummat_perm idx (npositive - 1) 1
          pure (ForInStep.yield (idx_sort, npositive, cummat_perm, state_perm))
        else pure (ForInStep.yield (idx_sort, npositive, cummat_perm, state_perm))

theorem get_cummat_unfold (ext_argsort : List Rat → Py (List Int)) (msm : List (List Rat)) :
    Gen.MsmCummat.get_cummat ext_argsort msm =
      if npAny2 (msm.map (fun r_ => r_.map (fun x_ => decide (x_ < (((0 : Int) : Int) : Rat))))) = true then .error .value
      else (do
        let s ← forIn (pyEnumerate msm) ((default : List Int), (default : Int), npFullLike2 msm (0 : Rat), npFullLike2 msm (0 : Int))
          (body ext_argsort)
        let c ← npSetCol s.2.2.1 (-1) (1 : Rat)
        pure (c, s.2.2.2)) := by
  unfold Gen.MsmCummat.get_cummat
  split <;> rfl

theorem mem_lt_of_perm (order : List Nat) (n : Nat) (h : Mcmc.isPermOfRange order n = true) :
    order.length = n ∧ ∀ j ∈ order, j < n := by
  have hp := Mcmc.perm_of_isPermOfRange order n h
  refine ⟨by simpa using hp.length_eq, fun j hj => ?_⟩
  exact List.mem_range.mp (hp.mem_iff.mp hj)

theorem body_step (ext : List Rat → Py (List Int)) (row : List Rat) (order : List Nat) (n : Nat)
    (hrow : row.length = n) (hperm : Mcmc.isPermOfRange order n = true)
    (hext : ext row = .ok ((order.map Int.ofNat).reverse))
    (preC sufC : List (List Rat)) (preS sufS : List (List Int)) (oldC : List Rat) (oldS : List Int)
    (holdC : oldC.length = n) (holdS : oldS.length = n) (k : Nat) (hkC : preC.length = k) (hkS : preS.length = k)
    (a : List Int) (b : Int) :
    body ext ((k : Int), row) (a, b, preC ++ oldC :: sufC, preS ++ oldS :: sufS)
      = .ok (.yield (order.map Int.ofNat, npCountNonzero row, preC ++ rowPre row order :: sufC,
          preS ++ order.map Int.ofNat :: sufS)) := by
  obtain ⟨hol, hlt⟩ := mem_lt_of_perm order n hperm
  unfold body
  simp only [hext, ok_bind, npReverse, List.reverse_reverse]
  rw [npTake_nat row order (by rw [hrow]; exact hlt), ok_bind, npCumsum_eq,
    npSetRow_mid _ _ _ _ _ hkC (by simp [holdC, hol]), ok_bind,
    npSetRow_mid _ _ _ _ _ hkS (by simp [holdS, hol]), ok_bind]
  have hnp : npCountNonzero row = (((row.filter (fun p => p != 0)).length : Nat) : Int) := rfl
  have hle : (row.filter (fun p => p != 0)).length ≤ n := hrow ▸ List.length_filter_le _ row
  unfold rowPre
  simp only []
  by_cases h0 : (row.filter (fun p => p != 0)).length = 0
  · have hc : ¬ ((npCountNonzero row != 0) = true) := by rw [hnp, h0]; decide
    rw [if_neg hc, if_pos h0]
    rfl
  · have hc : (npCountNonzero row != 0) = true := by
      rw [hnp]; simp only [bne_iff_ne, ne_eq]; omega
    rw [if_pos hc, if_neg h0, npSetRowFrom_mid _ _ _ _ hkC, ok_bind]
    have hb : pyBound (Mcmc.cumsum (List.map (fun j => row.getD j 0) order)).length (npCountNonzero row - 1)
        = (row.filter (fun p => p != 0)).length - 1 := by
      rw [hnp]
      unfold pyBound
      simp only [Mcmc.length_cumsum, List.length_map, hol]
      split <;> omega
    rw [hb]
    rfl

/-- the oracle contract for one row -/
def RowOK (ext : List Rat → Py (List Int)) (ord : List Rat → List Nat) (n : Nat) (r : List Rat) : Prop :=
  r.length = n ∧ Mcmc.isPermOfRange (ord r) n = true ∧ ext r = .ok (((ord r).map Int.ofNat).reverse)

theorem loop (ext : List Rat → Py (List Int)) (ord : List Rat → List Nat) (n : Nat) (suf : List (List Rat))
    (hsuf : ∀ r ∈ suf, RowOK ext ord n r) :
    ∀ (pre : List (List Rat)) (a : List Int) (b : Int),
      ∃ a' b', forIn (enumI (pre.length : Int) suf)
          (a, b, pre.map (fun r => rowPre r (ord r)) ++ npFullLike2 suf (0 : Rat),
            pre.map (fun r => (ord r).map Int.ofNat) ++ npFullLike2 suf (0 : Int)) (body ext)
        = .ok (a', b', (pre ++ suf).map (fun r => rowPre r (ord r)),
            (pre ++ suf).map (fun r => (ord r).map Int.ofNat)) := by
  induction suf with
  | nil =>
    intro pre a b
    exact ⟨a, b, by simp [enumI, npFullLike2]; rfl⟩
  | cons row suf ih =>
    intro pre a b
    obtain ⟨hrow, hperm, hext⟩ := hsuf row (by simp)
    have hstep := body_step ext row (ord row) n hrow hperm hext
      (pre.map (fun r => rowPre r (ord r))) (npFullLike2 suf (0 : Rat))
      (pre.map (fun r => (ord r).map Int.ofNat)) (npFullLike2 suf (0 : Int))
      (row.map (fun _ => (0 : Rat))) (row.map (fun _ => (0 : Int)))
      (by simp [hrow]) (by simp [hrow]) pre.length (by simp) (by simp) a b
    obtain ⟨a', b', hih⟩ := ih (fun r hr => hsuf r (by simp [hr])) (pre ++ [row]) ((ord row).map Int.ofNat)
      (npCountNonzero row)
    refine ⟨a', b', ?_⟩
    simp only [enumI, List.forIn_cons]
    have e : npFullLike2 (row :: suf) (0 : Rat) = row.map (fun _ => (0 : Rat)) :: npFullLike2 suf (0 : Rat) := rfl
    have e' : npFullLike2 (row :: suf) (0 : Int) = row.map (fun _ => (0 : Int)) :: npFullLike2 suf (0 : Int) := rfl
    rw [e, e', hstep, ok_bind]
    simp only [List.length_append, List.length_cons, List.length_nil, Int.natCast_add, List.map_append,
      List.map_cons, List.map_nil, List.append_assoc, List.cons_append, List.nil_append] at hih
    simpa using hih

theorem length_rowPre (row : List Rat) (order : List Nat) : (rowPre row order).length = order.length := by
  unfold rowPre
  simp only []
  split
  · simp
  · simp only [List.length_append, List.length_take, List.length_map, List.length_drop, Mcmc.length_cumsum]
    omega

theorem npSetCol_last (rows : List (List Rat)) (h : ∀ r ∈ rows, 0 < r.length) :
    npSetCol rows (-1) (1 : Rat) = .ok (rows.map (fun r => r.set (r.length - 1) 1)) := by
  unfold npSetCol
  induction rows with
  | nil => rfl
  | cons r rs ih =>
    rw [List.mapM_cons, pySet_neg_one _ _ (h r (by simp)), ok_bind, ih (fun r' hr' => h r' (by simp [hr'])), ok_bind]
    rfl

theorem rowPre_getElem? (row : List Rat) (order : List Nat) (k : Nat) (hk : k < order.length) :
    (rowPre row order)[k]? = some (if (row.filter (fun p => p != 0)).length ≠ 0 ∧ (row.filter (fun p => p != 0)).length - 1 ≤ k
      then (1 : Rat) else (Mcmc.cumsum (order.map (fun j => row.getD j 0))).getD k 0) := by
  have hcs : k < (Mcmc.cumsum (order.map (fun j => row.getD j 0))).length := by simpa using hk
  rw [Mcmc.getD_of_lt _ _ hcs]
  unfold rowPre
  simp only []
  by_cases h0 : (row.filter (fun p => p != 0)).length = 0
  · rw [if_pos h0, if_neg (by omega), List.getElem?_eq_getElem hcs]
  · rw [if_neg h0]
    by_cases hlt : k < (row.filter (fun p => p != 0)).length - 1
    · rw [List.getElem?_append_left (by simp; omega), if_neg (by omega)]
      simp [hlt]
    · rw [List.getElem?_append_right (by simp; omega), if_pos ⟨h0, by omega⟩]
      rw [List.getElem?_map, List.getElem?_drop, List.getElem?_eq_getElem (by simp; omega)]
      rfl

theorem rowPre_set_eq_cumRow (row : List Rat) (order : List Nat) :
    (rowPre row order).set ((rowPre row order).length - 1) 1 = Mcmc.cumRow row order := by
  apply List.ext_getElem?
  intro k
  by_cases hk : k < order.length
  · rw [List.getElem?_set, length_rowPre, rowPre_getElem? row order k hk]
    unfold Mcmc.cumRow
    simp only [Mcmc.length_cumsum, List.length_map]
    rw [List.getElem?_map, List.getElem?_range hk]
    simp only [Option.map_some]
    by_cases hlast : order.length - 1 = k
    · rw [if_pos hlast, if_pos (by omega), if_pos (Or.inr (by omega))]
    · rw [if_neg hlast]
      congr 1
      by_cases hc : (row.filter (fun p => p != 0)).length ≠ 0 ∧ (row.filter (fun p => p != 0)).length - 1 ≤ k
      · rw [if_pos hc, if_pos (Or.inl hc)]
      · rw [if_neg hc, if_neg (by omega)]
  · rw [List.getElem?_eq_none (by simp [length_rowPre]; omega),
      List.getElem?_eq_none (by simp [Mcmc.cumRow]; omega)]

theorem any_neg_iff (msm : List (List Rat)) :
    npAny2 (msm.map (fun r_ => r_.map (fun x_ => decide (x_ < (((0 : Int) : Int) : Rat))))) = true
      ↔ ∃ r ∈ msm, ∃ x ∈ r, x < 0 := by
  simp [npAny2]

/-- the whole translated function in closed form, for a rectangular matrix with `n ≥ 1` columns -/
theorem get_cummat_closed (ext : List Rat → Py (List Int)) (msm : List (List Rat)) (n : Nat) (hn : 1 ≤ n)
    (hnonneg : ∀ r ∈ msm, ∀ x ∈ r, 0 ≤ x) (ord : List Rat → List Nat) (hrows : ∀ r ∈ msm, RowOK ext ord n r) :
    Gen.MsmCummat.get_cummat ext msm
      = .ok (msm.map (fun row => Mcmc.cumRow row (ord row)), msm.map (fun row => (ord row).map Int.ofNat)) := by
  have hneg : ¬ (npAny2 (msm.map (fun r_ => r_.map (fun x_ => decide (x_ < (((0 : Int) : Int) : Rat))))) = true) := by
    rw [any_neg_iff]
    rintro ⟨r, hr, x, hx, hlt⟩
    exact absurd (hnonneg r hr x hx) (Rat.not_le.mpr hlt)
  rw [get_cummat_unfold, if_neg hneg, pyEnumerate_eq]
  obtain ⟨a', b', hl⟩ := loop ext ord n msm hrows [] default default
  simp only [List.length_nil, Int.natCast_zero, List.map_nil, List.nil_append] at hl
  rw [hl, ok_bind]
  simp only []
  rw [npSetCol_last _ (by
    intro r hr
    obtain ⟨row, hrow, rfl⟩ := List.mem_map.mp hr
    obtain ⟨_, hperm, _⟩ := hrows row hrow
    rw [length_rowPre, (mem_lt_of_perm _ _ hperm).1]
    exact hn), ok_bind]
  simp only [List.map_map, Function.comp_def, rowPre_set_eq_cumRow]
  rfl

/-- closed form of one entry of the model's cumulative row -/
theorem cumRow_getD (row : List Rat) (order : List Nat) (k : Nat) (hk : k < order.length) :
    (Mcmc.cumRow row order).getD k 0
      = if ((row.filter (fun p => p != 0)).length ≠ 0 ∧ (row.filter (fun p => p != 0)).length - 1 ≤ k) ∨ k + 1 = order.length
        then (1 : Rat) else (Mcmc.cumsum (order.map (fun j => row.getD j 0))).getD k 0 := by
  unfold Mcmc.cumRow
  simp only [Mcmc.length_cumsum, List.length_map]
  rw [List.getD_eq_getElem?_getD, List.getElem?_map, List.getElem?_range hk]
  rfl

/-- if every probability visited after position `k` is zero, at most `k + 1` entries of the row are non-zero -/
theorem npos_le_of_tail_zero (row : List Rat) (order : List Nat) (hperm : Mcmc.isPermOfRange order row.length = true)
    (k : Nat) (htail : ∀ p ∈ (order.map (fun j => row.getD j 0)).drop (k + 1), p = 0) :
    (row.filter (fun p => p != 0)).length ≤ k + 1 := by
  have hps := Mcmc.perm_ps row order hperm
  rw [← (hps.filter _).length_eq, ← List.take_append_drop (k + 1) (order.map (fun j => row.getD j 0)),
    List.filter_append, List.length_append]
  have h2 : ((order.map (fun j => row.getD j 0)).drop (k + 1)).filter (fun p => p != 0) = [] := by
    rw [List.filter_eq_nil_iff]
    intro p hp
    simp [htail p hp]
  rw [h2]
  have h1 := List.length_filter_le (fun p => p != 0) ((order.map (fun j => row.getD j 0)).take (k + 1))
  have h3 : ((order.map (fun j => row.getD j 0)).take (k + 1)).length ≤ k + 1 := List.length_take_le _ _
  simp only [List.length_nil, Nat.add_zero]
  omega

/-- the visiting order read off the oracle's answer (`argsort(row)[::-1]` as naturals; `[]` if the oracle raises) -/
def ordOf (ext : List Rat → Py (List Int)) (row : List Rat) : List Nat :=
  match ext row with
  | .ok p => p.reverse.map Int.toNat
  | .error _ => []

theorem ordOf_eq (ext : List Rat → Py (List Int)) (row : List Rat) (order : List Nat)
    (h : ext row = .ok ((order.map Int.ofNat).reverse)) : ordOf ext row = order := by
  unfold ordOf
  rw [h]
  simp only [List.reverse_reverse, List.map_map]
  conv => rhs; rw [← List.map_id order]
  apply List.map_congr_left
  intro j _
  rfl

/-- tail hypothesis in index form ⇒ in membership form -/
theorem tail_zero_of_index (row : List Rat) (order : List Nat) (k : Nat)
    (h : ∀ j, k < j → j < order.length → row.getD (order.getD j 0) 0 = 0) :
    ∀ p ∈ (order.map (fun j => row.getD j 0)).drop (k + 1), p = 0 := by
  intro p hp
  obtain ⟨i, hi, rfl⟩ := List.mem_iff_getElem.mp hp
  simp only [List.length_drop, List.length_map] at hi
  rw [List.getElem_drop, List.getElem_map]
  have := h (k + 1 + i) (by omega) (by omega)
  rwa [Mcmc.getD_of_lt order 0 (show k + 1 + i < order.length by omega)] at this

end MsmVerif.Refine.Cummat
