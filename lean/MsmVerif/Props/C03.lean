/-
Props/C03.lean — Hummer–Szabo lumped model (`LumpedStateTraj._estimate_markov_model`, model `Linalg.hsProject`).

The algebra lives in `Lemmas/HS.lean` (part A, on Mathlib matrices: `HS.Z_ones`, `HS.row_sum`, `HS.stationary`,
`HS.identity_lumping`, `HS.rownorm_noop`, `HS.positive`); here it is transported to the list-level model.

Nothing is assumed about the two matrix inversions: the Gauss–Jordan routine `Linalg.inverse` is proved correct
(`Bridge.inverse_correct`, restated here as `inverse_correct`), the vector returned by `Linalg.stationary` is proved
to be normalised, hence the certificates the driver checks (`HS.certOk`: `pi.sum = 1`,
`isInverse (1 + 1πᵀ − T) Z`, `isInverse (Aᵀ D_π Z A) M`) always hold (`certificates_hold`).  The hypotheses of the
theorems are only what the caller guarantees: `T` is a well-formed `n × n` list matrix with rows summing to one,
`assign` has length `n` and values `< m`.
-/
import MsmVerif.Lemmas.HS

namespace MsmVerif.C03
open MsmVerif.Linalg MsmVerif.Msm MsmVerif.Bridge MsmVerif.HS
open scoped Matrix

/-- The aggregation matrix built in `hsProject` from `assign` (`HS.aggrL`, see `HS.hsProject_eq_some_iff`) has in
row `i` exactly one `1`, at column `assign[i]`, and zeros elsewhere; the row has length `m` and sums to one. -/
theorem aggregation (assign : List ℕ) (m i : ℕ) (hi : i < assign.length) (hlt : assign[i] < m) :
    ((aggrL assign m).getD i []).length = m ∧
    entry (aggrL assign m) i assign[i] = 1 ∧
    (∀ j, j ≠ assign[i] → entry (aggrL assign m) i j = 0) ∧
    ((aggrL assign m).getD i []).sum = 1 := by
  have hrow : (aggrL assign m).getD i [] = (List.range m).map (fun a => if assign[i] = a then (1 : ℚ) else 0) := by
    simp [aggrL, List.getD_eq_getElem?_getD, hi]
  refine ⟨by rw [hrow]; simp, ?_, ?_, ?_⟩
  · simp [entry_aggrL hi hlt]
  · intro j hj
    by_cases hjm : j < m
    · simp [entry_aggrL hi hjm, Ne.symm hj]
    · unfold entry; rw [hrow]; simp [List.getD_eq_getElem?_getD, hjm]
  · rw [hrow, sum_map_eq_sum_fin (n := m) _ (by simp) _ 0]
    rw [Finset.sum_eq_single ⟨assign[i], hlt⟩]
    · simp [List.getD_eq_getElem?_getD, hlt]
    · intro b _ hb
      have : ¬ assign[i] = (b : ℕ) := fun e => hb (Fin.ext e.symm)
      simp [List.getD_eq_getElem?_getD, this]
    · intro h; exact absurd (Finset.mem_univ _) h

example : ((aggrL [0, 0, 1] 2).getD 2 []) = [0, 1] := by decide +kernel

/-- Gauss–Jordan is correct: whenever `Linalg.inverse X` returns `Z` for a well-formed `n × n` matrix `X`, `Z` is
well-formed, passes the certificate check `isInverse X Z` and is a two-sided inverse (`X Z = 1 = Z X`). -/
theorem inverse_correct {n : ℕ} {X Z : Mat} (hX : WF n n X) (hZ : inverse X = some Z) :
    WF n n Z ∧ isInverse X Z = true ∧
      toMatrix n n X * toMatrix n n Z = 1 ∧ toMatrix n n Z * toMatrix n n X = 1 :=
  ⟨(Bridge.inverse_correct hX hZ).1, isInverse_inverse hX hZ, (Bridge.inverse_correct hX hZ).2⟩

example : WF 2 2 [[2, 1], [1, 1]] ∧ inverse [[2, 1], [1, 1]] = some [[1, -1], [-1, 2]] := by
  unfold WF; decide +kernel

/-- The micro stationary vector computed by `Linalg.stationary` has length `n`, satisfies `π T = π` and sums to one. -/
theorem stationary_correct {n : ℕ} {T : Mat} {pi : Vec} (hT : WF n n T) (h : Linalg.stationary T = some pi) :
    pi.length = n ∧ vecMat pi T = pi ∧ pi.sum = 1 :=
  ⟨(stationary_spec hT h).2.1, (stationary_spec hT h).2.2, stationary_sum hT h⟩

example : Linalg.stationary [[1/2, 1/2], [1/4, 3/4]] = some [1/3, 2/3] := by decide +kernel

/-- The certificates checked by the driver (`pi.sum = 1`, both `inverse` results are true inverses) hold on every
well-formed input. -/
theorem certificates_hold {n : ℕ} {T : Mat} {assign : List ℕ} (m : ℕ) (hT : WF n n T) (hlen : assign.length = n) :
    certOk T assign m = true :=
  certOk_of_wf m hT hlen

/-- **Projection formula.**  If `hsProject T assign m positive = some R` for a well-formed `n × n` matrix `T` whose
rows sum to one, `assign` of length `n` with all values `< m`, then the
intermediate values `pi`, `Z`, `M` of the model satisfy all hypotheses of part A (`HS.Setup`: `T 1 = 1`, `π T = π`,
`Σ π = 1`, `(1 + 1πᵀ − T) Z = 1`, `(Aᵀ D_π Z A) M = 1`), `R` is a well-formed `m × m` matrix and
`R = rowNormalize (clip? (1 + 1π_Aᵀ − M D_{π_A}))` as Mathlib matrices, where `π_A = Aᵀ π`. -/
theorem model_formula {n m : ℕ} {T : Mat} {assign : List ℕ} {positive : Bool} {R : Mat}
    (hT : WF n n T) (hsum : ∀ row ∈ T, row.sum = 1) (hlen : assign.length = n) (hlt : ∀ s ∈ assign, s < m)
    (h : hsProject T assign m positive = some R) :
    ∃ pi Z M, Linalg.stationary T = some pi ∧ inverse (kMatL T pi) = some Z ∧
      inverse (nMatL pi assign m Z) = some M ∧
      Setup (toMatrix n n T) (toVec n pi) (assignFn assign hlen hlt) (toMatrix n n Z) (toMatrix m m M) ∧
      WF m m R ∧
      toMatrix m m R = rowNormalize (clipIfM positive
        (hs (toMatrix m m M) (lump (assignFn assign hlen hlt) (toVec n pi)))) := by
  obtain ⟨pi, Z, M, hpi, hZ, hM, -, -, hm, wM, hR, hS, -, hhs⟩ := model_core hT hsum hlen hlt h
  have wH := wf_hsL hm wM (length_lumpL pi assign m)
  refine ⟨pi, Z, M, hpi, hZ, hM, hS, ?_, ?_⟩
  · rw [hR]; exact wf_rowNormalizeQ (wf_clipIf wH _)
  · rw [hR, toMatrix_rowNormalizeQ (wf_clipIf wH _), toMatrix_clipIf wH, hhs]

/-- Without clipping the row normalisation is a no-op: `R` is exactly the Hummer–Szabo matrix
`1 + 1π_Aᵀ − M D_{π_A}` (as a list matrix `HS.hsL`, and as a Mathlib matrix `HS.hs`). -/
theorem model_formula_unclipped {n m : ℕ} {T : Mat} {assign : List ℕ} {R : Mat}
    (hT : WF n n T) (hsum : ∀ row ∈ T, row.sum = 1) (hlen : assign.length = n) (hlt : ∀ s ∈ assign, s < m)
    (h : hsProject T assign m false = some R) :
    ∃ pi Z M, Linalg.stationary T = some pi ∧ inverse (kMatL T pi) = some Z ∧
      inverse (nMatL pi assign m Z) = some M ∧
      Setup (toMatrix n n T) (toVec n pi) (assignFn assign hlen hlt) (toMatrix n n Z) (toMatrix m m M) ∧
      WF m m R ∧ R = hsL M (lumpL pi assign m) m ∧
      toVec m (lumpL pi assign m) = lump (assignFn assign hlen hlt) (toVec n pi) ∧
      toMatrix m m R = hs (toMatrix m m M) (lump (assignFn assign hlen hlt) (toVec n pi)) := by
  obtain ⟨pi, Z, M, hpi, hZ, hM, -, -, hm, wM, hR, hS, hl, hhs⟩ := model_core hT hsum hlen hlt h
  have wH := wf_hsL hm wM (length_lumpL pi assign m)
  have hrows : ∀ row ∈ hsL M (lumpL pi assign m) m, row.sum = 1 :=
    rowSums_of_mulVec_one wH (by rw [hhs]; exact row_sum hS)
  have hR' : R = hsL M (lumpL pi assign m) m := by
    rw [hR]; exact rowNormalizeQ_noop _ hrows
  exact ⟨pi, Z, M, hpi, hZ, hM, hS, hR' ▸ wH, hR', hl, hR' ▸ hhs⟩

/-- Without clipping, every row of the lumped transition matrix sums to one (and it is `m × m`). -/
theorem rows_sum_one {n m : ℕ} {T : Mat} {assign : List ℕ} {R : Mat}
    (hT : WF n n T) (hsum : ∀ row ∈ T, row.sum = 1) (hlen : assign.length = n) (hlt : ∀ s ∈ assign, s < m)
    (h : hsProject T assign m false = some R) :
    WF m m R ∧ ∀ row ∈ R, row.sum = 1 := by
  obtain ⟨pi, Z, M, -, -, -, hS, wR, -, -, hhs⟩ := model_formula_unclipped hT hsum hlen hlt h
  exact ⟨wR, rowSums_of_mulVec_one wR (by rw [hhs]; exact row_sum hS)⟩

/-- Without clipping, the lumped populations `π_A` (`HS.lumpL`: per-macrostate sums of the micro stationary vector)
are a probability vector that is stationary for the lumped matrix: `π_A R = π_A`, `Σ π_A = 1`. -/
theorem lumped_stationary {n m : ℕ} {T : Mat} {assign : List ℕ} {R : Mat}
    (hT : WF n n T) (hsum : ∀ row ∈ T, row.sum = 1) (hlen : assign.length = n) (hlt : ∀ s ∈ assign, s < m)
    (h : hsProject T assign m false = some R) :
    ∃ pi, Linalg.stationary T = some pi ∧
      vecMat (lumpL pi assign m) R = lumpL pi assign m ∧ (lumpL pi assign m).sum = 1 := by
  obtain ⟨pi, Z, M, hpi, -, -, hS, wR, -, hl, hhs⟩ := model_formula_unclipped hT hsum hlen hlt h
  have hlenL := length_lumpL pi assign m
  have hm : 0 < m := by
    obtain ⟨hn, -, -⟩ := stationary_spec hT hpi
    exact pos_of_assign hlen hlt hn
  refine ⟨pi, hpi, ?_, ?_⟩
  · apply vec_ext_toVec (length_vecMat wR hm _) hlenL
    rw [toVec_vecMat hlenL wR, hhs, hl]
    exact (HS.stationary hS).1
  · rw [sum_eq_toVec hlenL, hl]
    exact (HS.stationary hS).2

/-- With `positive = true` (negative entries clipped to zero before row normalisation) the result has only
non-negative entries and every row sums to one, except rows that sum to zero.  No hypotheses on the input are needed. -/
theorem positive_entries {T : Mat} {assign : List ℕ} {m : ℕ} {R : Mat}
    (h : hsProject T assign m true = some R) :
    ∀ row ∈ R, (∀ x ∈ row, 0 ≤ x) ∧ (row.sum ≠ 0 → row.sum = 1) := by
  obtain ⟨pi, Z, M, -, -, -, hR⟩ := hsProject_eq_some_iff.mp h
  rw [hR]
  exact HS.positive _

/-- With `positive = true` on a row-stochastic input every row of the result sums to one (no zero rows can occur:
the un-clipped rows sum to one, so the clipped rows sum to at least one) and all entries are non-negative. -/
theorem positive_rows_sum_one {n m : ℕ} {T : Mat} {assign : List ℕ} {R : Mat}
    (hT : WF n n T) (hsum : ∀ row ∈ T, row.sum = 1) (hlen : assign.length = n) (hlt : ∀ s ∈ assign, s < m)
    (h : hsProject T assign m true = some R) :
    WF m m R ∧ ∀ row ∈ R, (∀ x ∈ row, 0 ≤ x) ∧ row.sum = 1 := by
  obtain ⟨pi, Z, M, -, -, -, -, -, hm, wM, hR, hS, -, hhs⟩ := model_core hT hsum hlen hlt h
  have wH := wf_hsL hm wM (length_lumpL pi assign m)
  have hrows : ∀ row ∈ hsL M (lumpL pi assign m) m, row.sum = 1 :=
    rowSums_of_mulVec_one wH (by rw [hhs]; exact row_sum hS)
  rw [hR]
  exact ⟨wf_rowNormalizeQ (wf_clipIf wH _), positive_of_rowSums _ hrows⟩

/-- Relabelling: if `assign` is injective (a permutation of `0..n-1`, `m = n`), the lumped matrix is the micro
matrix with relabelled states: `R[assign[i]][assign[j]] = T[i][j]`. -/
theorem relabel_lumping {n : ℕ} {T : Mat} {assign : List ℕ} {R : Mat}
    (hT : WF n n T) (hsum : ∀ row ∈ T, row.sum = 1) (hlen : assign.length = n) (hlt : ∀ s ∈ assign, s < n)
    (hnd : assign.Nodup)
    (h : hsProject T assign n false = some R) :
    ∀ i j, i < n → j < n → entry R (assign.getD i 0) (assign.getD j 0) = entry T i j := by
  obtain ⟨pi, Z, M, -, -, -, hS, -, -, -, hhs⟩ := model_formula_unclipped hT hsum hlen hlt h
  have hinj : Function.Injective (assignFn assign hlen hlt) := by
    intro a b hab
    have := congrArg Fin.val hab
    simp only [assignFn_val] at this
    have ha : (a : ℕ) < assign.length := hlen ▸ a.2
    have hb : (b : ℕ) < assign.length := hlen ▸ b.2
    simp only [List.getD_eq_getElem?_getD, List.getElem?_eq_getElem ha, List.getElem?_eq_getElem hb,
      Option.getD_some] at this
    exact Fin.ext ((hnd.getElem_inj_iff).mp this)
  intro i j hi hj
  have := identity_lumping_apply hS hinj ⟨i, hi⟩ ⟨j, hj⟩
  rw [← hhs] at this
  simpa [assignFn_val] using this

/-- Identity lumping (`assign = [0, …, n-1]`) returns the micro transition matrix itself. -/
theorem identity_lumping {n : ℕ} {T : Mat} {R : Mat}
    (hT : WF n n T) (hsum : ∀ row ∈ T, row.sum = 1)
    (h : hsProject T (List.range n) n false = some R) : R = T := by
  have hlt : ∀ s ∈ List.range n, s < n := fun s hs => List.mem_range.mp hs
  have wR := (rows_sum_one hT hsum List.length_range hlt h).1
  apply WF.ext wR hT
  intro i j hi hj
  have := relabel_lumping hT hsum List.length_range hlt List.nodup_range h i j hi hj
  simpa [List.getD_eq_getElem?_getD, hi, hj] using this

/-! ### non-vacuity: concrete inputs satisfying all hypotheses -/

/-- 3 microstates lumped into 2 macrostates: all hypotheses of `model_formula`, `rows_sum_one`, `lumped_stationary` hold -/
example :
    let T : Mat := [[1/2, 1/4, 1/4], [1/4, 1/2, 1/4], [1/3, 1/3, 1/3]]
    WF 3 3 T ∧ (∀ row ∈ T, row.sum = 1) ∧ [0, 0, 1].length = 3 ∧ (∀ s ∈ [0, 0, 1], s < 2) ∧
      hsProject T [0, 0, 1] 2 false = some [[3/4, 1/4], [2/3, 1/3]] := by
  unfold WF; decide +kernel

/-- a cyclic 3-state chain: the un-clipped projection has a negative entry, clipping matters (`positive_entries`) -/
example :
    let T : Mat := [[0, 1, 0], [0, 0, 1], [1, 0, 0]]
    hsProject T [0, 0, 1] 2 false = some [[1/3, 2/3], [4/3, -1/3]] ∧
      hsProject T [0, 0, 1] 2 true = some [[1/3, 2/3], [1, 0]] := by
  decide +kernel

/-- a relabelling (`relabel_lumping`) and the identity lumping (`identity_lumping`) -/
example :
    let T : Mat := [[1/2, 1/2], [1/4, 3/4]]
    WF 2 2 T ∧ (∀ row ∈ T, row.sum = 1) ∧ [1, 0].Nodup ∧
      hsProject T [1, 0] 2 false = some [[3/4, 1/4], [1/2, 1/2]] ∧
      hsProject T (List.range 2) 2 false = some T := by
  unfold WF; decide +kernel

end MsmVerif.C03
