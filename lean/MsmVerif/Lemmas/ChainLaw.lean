/-
Lemmas/ChainLaw.lean — the law of the sampled chain in elementary (measure-free) form: definitions of the box of
draw vectors realising a state path, its volume, and the helper lemmas for Props/C07Law.lean.

Everything is about the exact rational model `Model/Mcmc.lean`; the one-step facts come from `Props/C07.lean`
(`step_interval`, `step_interval_conv`, `cumRow_spec`, `zero_never`).
-/
import MsmVerif.Props.C07
import Mathlib.Data.List.Nodup

namespace MsmVerif.Mcmc
open MsmVerif MsmVerif.Msm

/-! ### definitions -/

/-- column position of state `j` in the row of state `s` of the permutation matrix -/
def posOf (perm : List (List Nat)) (s j : Nat) : Nat := (perm.getD s []).idxOf j

/-- the box (one half-open interval `[lo, hi)` per step, stored as `(lo, hi)`) of the draw vectors that make the
chain started in `s` run through `path` -/
def pathBox (cummat : List (List Rat)) (perm : List (List Nat)) : Nat → List Nat → List (Rat × Rat)
  | _, [] => []
  | s, j :: rest => intervalOf (cummat.getD s []) (posOf perm s j) :: pathBox cummat perm j rest

/-- `us` lies in the box: same number of coordinates and `lo_i ≤ u_i < hi_i` for every coordinate -/
def inBox : List (Rat × Rat) → List Rat → Prop
  | [], [] => True
  | b :: bs, u :: us => (b.1 ≤ u ∧ u < b.2) ∧ inBox bs us
  | [], _ :: _ => False
  | _ :: _, [] => False

/-- volume of a box: product of the side lengths -/
def volume (box : List (Rat × Rat)) : Rat := (box.map (fun b => b.2 - b.1)).prod

/-- every state of `path` occurs in the `perm` row of its predecessor (the start `s` precedes the first state) -/
def pathIn (perm : List (List Nat)) : Nat → List Nat → Prop
  | _, [] => True
  | s, j :: rest => j ∈ perm.getD s [] ∧ pathIn perm j rest

/-- the product of the transition probabilities along `s → path[0] → path[1] → …` -/
def pathProb (T : List (List Rat)) (s : Nat) (path : List Nat) : Rat :=
  (((s :: path).zip path).map (fun ab => (T.getD ab.1 []).getD ab.2 0)).prod

/-- all state paths of length `m` over the states `0 … n-1` -/
def allPaths (n : Nat) : Nat → List (List Nat)
  | 0 => [[]]
  | m + 1 => (List.range n).flatMap (fun j => (allPaths n m).map (fun p => j :: p))

/-- `T` is a square row-stochastic matrix, row `i` of `perm` is a permutation of the states that sorts row `i` of `T`
non-increasingly, and row `i` of `cummat` is the exact cumulative row of `_get_cummat` for that order -/
def ExactModel (T : List (List Rat)) (cummat : List (List Rat)) (perm : List (List Nat)) : Prop :=
  (∀ row ∈ T, row.length = T.length ∧ (∀ p ∈ row, 0 ≤ p) ∧ row.sum = 1) ∧
  ∀ i, i < T.length →
    isPermOfRange (perm.getD i []) T.length = true ∧
    nonIncreasing ((perm.getD i []).map (fun j => (T.getD i []).getD j 0)) = true ∧
    cummat.getD i [] = cumRow (T.getD i []) (perm.getD i [])

/-! ### simp facts for the definitions -/

@[simp] theorem pathBox_nil (cummat : List (List Rat)) (perm : List (List Nat)) (s : Nat) :
    pathBox cummat perm s [] = [] := rfl

@[simp] theorem pathBox_cons (cummat : List (List Rat)) (perm : List (List Nat)) (s j : Nat) (rest : List Nat) :
    pathBox cummat perm s (j :: rest) =
      intervalOf (cummat.getD s []) (posOf perm s j) :: pathBox cummat perm j rest := rfl

@[simp] theorem length_pathBox (cummat : List (List Rat)) (perm : List (List Nat)) (s : Nat) (path : List Nat) :
    (pathBox cummat perm s path).length = path.length := by
  induction path generalizing s with
  | nil => rfl
  | cons j rest ih => simp [ih]

@[simp] theorem inBox_nil_nil : inBox [] [] = True := rfl
@[simp] theorem inBox_cons_cons (b : Rat × Rat) (bs : List (Rat × Rat)) (u : Rat) (us : List Rat) :
    inBox (b :: bs) (u :: us) = ((b.1 ≤ u ∧ u < b.2) ∧ inBox bs us) := rfl
@[simp] theorem inBox_nil_cons (u : Rat) (us : List Rat) : inBox [] (u :: us) = False := rfl
@[simp] theorem inBox_cons_nil (b : Rat × Rat) (bs : List (Rat × Rat)) : inBox (b :: bs) [] = False := rfl

theorem inBox_length {box : List (Rat × Rat)} {us : List Rat} (h : inBox box us) : us.length = box.length := by
  induction box generalizing us with
  | nil => cases us with
    | nil => rfl
    | cons u us => simp at h
  | cons b bs ih => cases us with
    | nil => simp at h
    | cons u us =>
      simp only [inBox_cons_cons] at h
      simp [ih h.2]

/-- index form of `inBox`: equal length and `lo_i ≤ u_i < hi_i` for every coordinate `i` -/
theorem inBox_iff_getElem (box : List (Rat × Rat)) (us : List Rat) :
    inBox box us ↔ us.length = box.length ∧
      ∀ i (h : i < box.length), box[i].1 ≤ us.getD i 0 ∧ us.getD i 0 < box[i].2 := by
  induction box generalizing us with
  | nil => cases us with
    | nil => simp
    | cons u us => simp
  | cons b bs ih => cases us with
    | nil => simp
    | cons u us =>
      simp only [inBox_cons_cons, ih us, List.length_cons, Nat.add_right_cancel_iff]
      constructor
      · rintro ⟨hb, hl, hall⟩
        refine ⟨hl, ?_⟩
        intro i hi
        cases i with
        | zero => simpa using hb
        | succ i => simpa using hall i (by omega)
      · rintro ⟨hl, hall⟩
        refine ⟨by simpa using hall 0 (by omega), hl, ?_⟩
        intro i hi
        have h := hall (i + 1) (by omega)
        simp only [List.getElem_cons_succ, List.getD_cons_succ] at h
        exact h

@[simp] theorem volume_nil : volume [] = 1 := rfl
@[simp] theorem volume_cons (b : Rat × Rat) (bs : List (Rat × Rat)) :
    volume (b :: bs) = (b.2 - b.1) * volume bs := rfl

@[simp] theorem pathIn_nil (perm : List (List Nat)) (s : Nat) : pathIn perm s [] = True := rfl
@[simp] theorem pathIn_cons (perm : List (List Nat)) (s j : Nat) (rest : List Nat) :
    pathIn perm s (j :: rest) = (j ∈ perm.getD s [] ∧ pathIn perm j rest) := rfl

@[simp] theorem pathProb_nil (T : List (List Rat)) (s : Nat) : pathProb T s [] = 1 := rfl
@[simp] theorem pathProb_cons (T : List (List Rat)) (s j : Nat) (rest : List Nat) :
    pathProb T s (j :: rest) = (T.getD s []).getD j 0 * pathProb T j rest := rfl

/-! ### one step: position of a state in its row -/

theorem getD_idxOf {l : List Nat} {j : Nat} (h : j ∈ l) : l.getD (l.idxOf j) 0 = j := by
  have hlt : l.idxOf j < l.length := List.idxOf_lt_length_of_mem h
  rw [getD_of_lt l 0 hlt]
  exact List.getElem_idxOf hlt

/-- a draw in the interval of `j`'s position is mapped to `j` -/
theorem step_of_mem_interval (cum : List Rat) (order : List Nat) (u : Rat) (j : Nat)
    (hmono : cum.Pairwise (· ≤ ·)) (hlen : order.length = cum.length) (hj : j ∈ order)
    (hlo : (intervalOf cum (order.idxOf j)).1 ≤ u) (hhi : u < (intervalOf cum (order.idxOf j)).2) :
    step cum order u = j := by
  have hlt : order.idxOf j < order.length := List.idxOf_lt_length_of_mem hj
  rw [C07.step_interval cum order u hmono hlen _ (by omega) hlo hhi, getD_idxOf hj]

/-- a draw `0 ≤ u < last breakpoint` mapped to `j` lies in the interval of `j`'s position (distinct states) -/
theorem mem_interval_of_step (cum : List Rat) (order : List Nat) (u : Rat) (j : Nat)
    (hlen : order.length = cum.length) (hnd : order.Nodup) (hj : j ∈ order)
    (h0 : 0 ≤ u) (hlast : u < cum.getLastD 0) (h : step cum order u = j) :
    (intervalOf cum (order.idxOf j)).1 ≤ u ∧ u < (intervalOf cum (order.idxOf j)).2 := by
  have hlt : order.idxOf j < order.length := List.idxOf_lt_length_of_mem hj
  exact C07.step_interval_conv cum order u hlen hnd h0 hlast _ (by omega) (by rw [h, getD_idxOf hj])

/-! ### whole chains -/

/-- draws inside the box of `path` realise `path` -/
theorem chainFrom_of_inBox (cummat : List (List Rat)) (perm : List (List Nat)) (s : Nat) (path : List Nat)
    (hmono : ∀ i ∈ s :: path, (cummat.getD i []).Pairwise (· ≤ ·))
    (hlen : ∀ i ∈ s :: path, (perm.getD i []).length = (cummat.getD i []).length)
    (hp : pathIn perm s path) (us : List Rat) (hb : inBox (pathBox cummat perm s path) us) :
    chainFrom cummat perm s us = path := by
  induction path generalizing s us with
  | nil => cases us with
    | nil => rfl
    | cons u us => simp at hb
  | cons j rest ih => cases us with
    | nil => simp at hb
    | cons u us =>
      simp only [pathBox_cons, inBox_cons_cons, posOf] at hb
      simp only [pathIn_cons] at hp
      have hstep : step (cummat.getD s []) (perm.getD s []) u = j :=
        step_of_mem_interval _ _ u j (hmono s (by simp)) (hlen s (by simp)) hp.1 hb.1.1 hb.1.2
      simp only [chainFrom, hstep]
      rw [ih j (fun i hi => hmono i (List.mem_cons_of_mem _ hi)) (fun i hi => hlen i (List.mem_cons_of_mem _ hi))
        hp.2 us hb.2]

/-- draws in `[0, last breakpoint)` that realise `path` lie in the box of `path` -/
theorem inBox_of_chainFrom (cummat : List (List Rat)) (perm : List (List Nat)) (s : Nat) (path : List Nat)
    (hlen : ∀ i ∈ s :: path, (perm.getD i []).length = (cummat.getD i []).length)
    (hnd : ∀ i ∈ s :: path, (perm.getD i []).Nodup)
    (hlast : ∀ i ∈ s :: path, (cummat.getD i []).getLastD 0 = 1)
    (hp : pathIn perm s path) (us : List Rat) (hu : ∀ u ∈ us, 0 ≤ u ∧ u < 1)
    (h : chainFrom cummat perm s us = path) : inBox (pathBox cummat perm s path) us := by
  induction path generalizing s us with
  | nil => cases us with
    | nil => simp
    | cons u us => simp [chainFrom] at h
  | cons j rest ih => cases us with
    | nil => simp [chainFrom] at h
    | cons u us =>
      simp only [chainFrom, List.cons.injEq] at h
      obtain ⟨hstep, hrest⟩ := h
      simp only [pathIn_cons] at hp
      have hu0 := hu u (by simp)
      have hint := mem_interval_of_step (cummat.getD s []) (perm.getD s []) u j (hlen s (by simp))
        (hnd s (by simp)) hp.1 hu0.1 (by rw [hlast s (by simp)]; exact hu0.2) hstep
      simp only [pathBox_cons, inBox_cons_cons, posOf]
      refine ⟨hint, ?_⟩
      rw [hstep] at hrest
      exact ih j (fun i hi => hlen i (List.mem_cons_of_mem _ hi)) (fun i hi => hnd i (List.mem_cons_of_mem _ hi))
        (fun i hi => hlast i (List.mem_cons_of_mem _ hi)) hp.2 us
        (fun v hv => hu v (List.mem_cons_of_mem _ hv)) hrest

/-! ### consequences of `ExactModel` -/

theorem getD_mem_of_lt (T : List (List Rat)) {i : Nat} (hi : i < T.length) : T.getD i [] ∈ T := by
  rw [getD_of_lt T [] hi]
  exact List.getElem_mem hi

/-- what `ExactModel` says about row `i` -/
theorem ExactModel.row {T cummat : List (List Rat)} {perm : List (List Nat)} (hm : ExactModel T cummat perm)
    {i : Nat} (hi : i < T.length) :
    (T.getD i []).length = T.length ∧ (∀ p ∈ T.getD i [], 0 ≤ p) ∧ (T.getD i []).sum = 1 ∧
    isPermOfRange (perm.getD i []) (T.getD i []).length = true ∧
    nonIncreasing ((perm.getD i []).map (fun j => (T.getD i []).getD j 0)) = true ∧
    cummat.getD i [] = cumRow (T.getD i []) (perm.getD i []) := by
  obtain ⟨h1, h2, h3⟩ := hm.1 _ (getD_mem_of_lt T hi)
  obtain ⟨h4, h5, h6⟩ := hm.2 i hi
  exact ⟨h1, h2, h3, by rw [h1]; exact h4, h5, h6⟩

theorem ExactModel.perm_perm {T cummat : List (List Rat)} {perm : List (List Nat)} (hm : ExactModel T cummat perm)
    {i : Nat} (hi : i < T.length) : (perm.getD i []).Perm (List.range T.length) :=
  perm_of_isPermOfRange _ _ (hm.2 i hi).1

theorem ExactModel.mem_perm {T cummat : List (List Rat)} {perm : List (List Nat)} (hm : ExactModel T cummat perm)
    {i : Nat} (hi : i < T.length) (j : Nat) : j ∈ perm.getD i [] ↔ j < T.length := by
  rw [(hm.perm_perm hi).mem_iff, List.mem_range]

theorem ExactModel.nodup {T cummat : List (List Rat)} {perm : List (List Nat)} (hm : ExactModel T cummat perm)
    {i : Nat} (hi : i < T.length) : (perm.getD i []).Nodup :=
  (hm.perm_perm hi).nodup_iff.mpr List.nodup_range

theorem ExactModel.perm_length {T cummat : List (List Rat)} {perm : List (List Nat)} (hm : ExactModel T cummat perm)
    {i : Nat} (hi : i < T.length) : (perm.getD i []).length = T.length := by
  rw [(hm.perm_perm hi).length_eq, List.length_range]

/-- row `i` of the exact cumulative matrix: one breakpoint per state, non-decreasing, last breakpoint 1 -/
theorem ExactModel.cum {T cummat : List (List Rat)} {perm : List (List Nat)} (hm : ExactModel T cummat perm)
    {i : Nat} (hi : i < T.length) :
    (cummat.getD i []).length = T.length ∧ (cummat.getD i []).Pairwise (· ≤ ·) ∧
    (cummat.getD i []).getLastD 0 = 1 := by
  obtain ⟨h1, h2, h3, h4, h5, h6⟩ := hm.row hi
  obtain ⟨a, b, c, _⟩ := C07.cumRow_spec _ _ h2 h3 h4 h5
  rw [h6]
  exact ⟨a.trans h1, b, c⟩

/-- the interval of state `j` in the row of state `i` has length `T[i][j]` -/
theorem ExactModel.interval_length {T cummat : List (List Rat)} {perm : List (List Nat)}
    (hm : ExactModel T cummat perm) {i j : Nat} (hi : i < T.length) (hj : j < T.length) :
    (intervalOf (cummat.getD i []) (posOf perm i j)).2 - (intervalOf (cummat.getD i []) (posOf perm i j)).1
      = (T.getD i []).getD j 0 := by
  obtain ⟨h1, h2, h3, h4, h5, h6⟩ := hm.row hi
  obtain ⟨_, _, _, d⟩ := C07.cumRow_spec _ _ h2 h3 h4 h5
  have hmem : j ∈ perm.getD i [] := (hm.mem_perm hi j).mpr hj
  have hlt : posOf perm i j < (T.getD i []).length := by
    rw [h1, ← hm.perm_length hi]
    exact List.idxOf_lt_length_of_mem hmem
  rw [h6, d _ hlt, posOf, getD_idxOf hmem]

theorem ExactModel.pathIn {T cummat : List (List Rat)} {perm : List (List Nat)} (hm : ExactModel T cummat perm)
    (s : Nat) (hs : s < T.length) (path : List Nat) (hpath : ∀ j ∈ path, j < T.length) :
    pathIn perm s path := by
  induction path generalizing s with
  | nil => simp
  | cons j rest ih =>
    simp only [pathIn_cons]
    have hj := hpath j (by simp)
    exact ⟨(hm.mem_perm hs j).mpr hj, ih j hj (fun x hx => hpath x (List.mem_cons_of_mem _ hx))⟩

/-- volume of the box of a path = product of the transition probabilities -/
theorem volume_pathBox {T cummat : List (List Rat)} {perm : List (List Nat)} (hm : ExactModel T cummat perm)
    (s : Nat) (hs : s < T.length) (path : List Nat) (hpath : ∀ j ∈ path, j < T.length) :
    volume (pathBox cummat perm s path) = pathProb T s path := by
  induction path generalizing s with
  | nil => simp
  | cons j rest ih =>
    have hj := hpath j (by simp)
    simp only [pathBox_cons, volume_cons, pathProb_cons]
    rw [hm.interval_length hs hj, ih j hj (fun x hx => hpath x (List.mem_cons_of_mem _ hx))]

theorem pathProb_nonneg {T cummat : List (List Rat)} {perm : List (List Nat)} (hm : ExactModel T cummat perm)
    (s : Nat) (path : List Nat) : 0 ≤ pathProb T s path := by
  induction path generalizing s with
  | nil => simp
  | cons j rest ih =>
    simp only [pathProb_cons]
    refine mul_nonneg ?_ (ih j)
    by_cases hs : s < T.length
    · obtain ⟨_, h2, _⟩ := hm.row hs
      by_cases hj : j < (T.getD s []).length
      · rw [getD_of_lt _ 0 hj]; exact h2 _ (List.getElem_mem hj)
      · rw [List.getD_eq_getElem?_getD, List.getElem?_eq_none (by omega)]; exact le_refl _
    · rw [List.getD_eq_getElem?_getD (l := T), List.getElem?_eq_none (by omega)]
      simp

/-- the realised chain only uses transitions of positive probability -/
theorem chainFrom_pos {T cummat : List (List Rat)} {perm : List (List Nat)} (hm : ExactModel T cummat perm)
    (s : Nat) (hs : s < T.length) (us : List Rat) (hu : ∀ u ∈ us, 0 ≤ u ∧ u < 1) :
    ∀ ab ∈ (s :: chainFrom cummat perm s us).zip (chainFrom cummat perm s us),
      0 < (T.getD ab.1 []).getD ab.2 0 := by
  induction us generalizing s with
  | nil => simp [chainFrom]
  | cons u us ih =>
    obtain ⟨h1, h2, h3, h4, h5, h6⟩ := hm.row hs
    have hu0 := hu u (by simp)
    have hpos := C07.zero_never _ _ u h2 h3 h4 h5 hu0.1 hu0.2
    rw [← h6] at hpos
    have hlt : step (cummat.getD s []) (perm.getD s []) u < T.length :=
      step_lt _ _ _ _ (by omega) (fun x hx => (hm.mem_perm hs x).mp hx)
    intro ab hab
    simp only [chainFrom, List.zip_cons_cons, List.mem_cons] at hab
    rcases hab with rfl | hab
    · exact hpos
    · exact ih _ hlt (fun v hv => hu v (List.mem_cons_of_mem _ hv)) ab hab

theorem chainFrom_lt_of_model {T cummat : List (List Rat)} {perm : List (List Nat)} (hm : ExactModel T cummat perm)
    (s : Nat) (hs : s < T.length) (us : List Rat) : ∀ x ∈ chainFrom cummat perm s us, x < T.length :=
  chainFrom_lt cummat perm T.length (fun _ hi x hx => (hm.mem_perm hi x).mp hx) s hs us

/-! ### all paths and the total volume -/

theorem prod_pos_of_forall (l : List Rat) (h : ∀ x ∈ l, 0 < x) : 0 < l.prod := by
  induction l with
  | nil => simp
  | cons a l ih =>
    simp only [List.prod_cons]
    exact mul_pos (h a (by simp)) (ih (fun x hx => h x (List.mem_cons_of_mem _ hx)))

theorem sum_map_flatMap {α β : Type} (l : List α) (f : α → List β) (g : β → Rat) :
    ((l.flatMap f).map g).sum = (l.map (fun a => ((f a).map g).sum)).sum := by
  induction l with
  | nil => rfl
  | cons a l ih => simp [List.flatMap_cons, ih]

theorem sum_map_mul_left' {α : Type} (l : List α) (c : Rat) (g : α → Rat) :
    (l.map (fun a => c * g a)).sum = c * (l.map g).sum := by
  induction l with
  | nil => simp
  | cons a l ih => simp only [List.map_cons, List.sum_cons, ih]; ring

theorem mem_allPaths (n m : Nat) (p : List Nat) : p ∈ allPaths n m ↔ p.length = m ∧ ∀ j ∈ p, j < n := by
  induction m generalizing p with
  | zero =>
    simp only [allPaths, List.mem_singleton]
    constructor
    · rintro rfl; simp
    · rintro ⟨h, _⟩; exact List.eq_nil_of_length_eq_zero h
  | succ m ih =>
    simp only [allPaths, List.mem_flatMap, List.mem_range, List.mem_map]
    constructor
    · rintro ⟨j, hj, q, hq, rfl⟩
      obtain ⟨h1, h2⟩ := (ih q).mp hq
      refine ⟨by simp [h1], ?_⟩
      intro x hx
      rcases List.mem_cons.mp hx with rfl | hx
      · exact hj
      · exact h2 x hx
    · rintro ⟨h1, h2⟩
      cases p with
      | nil => simp at h1
      | cons j q =>
        refine ⟨j, h2 j (by simp), q, (ih q).mpr ⟨by simpa using h1, fun x hx => h2 x (by simp [hx])⟩, rfl⟩

theorem length_allPaths (n m : Nat) : (allPaths n m).length = n ^ m := by
  induction m with
  | zero => simp [allPaths]
  | succ m ih =>
    simp only [allPaths, List.length_flatMap, List.length_map, ih]
    rw [List.map_const', List.sum_replicate_nat, List.length_range, Nat.pow_succ, Nat.mul_comm]

theorem allPaths_nodup (n m : Nat) : (allPaths n m).Nodup := by
  induction m with
  | zero => simp [allPaths]
  | succ m ih =>
    simp only [allPaths]
    rw [List.nodup_flatMap]
    refine ⟨?_, ?_⟩
    · intro j _
      exact List.Nodup.map (fun a b h => (List.cons.inj h).2) ih
    · refine List.Pairwise.imp ?_ List.nodup_range
      intro a b hab
      show List.Disjoint _ _
      intro x hxa hxb
      simp only [List.mem_map] at hxa hxb
      obtain ⟨_, _, rfl⟩ := hxa
      obtain ⟨_, _, h⟩ := hxb
      exact hab (List.cons.inj h).1.symm

/-- the path probabilities of the paths of length `m` from `s` add up to 1 -/
theorem sum_pathProb {T cummat : List (List Rat)} {perm : List (List Nat)} (hm : ExactModel T cummat perm)
    (m s : Nat) (hs : s < T.length) :
    ((allPaths T.length m).map (fun p => pathProb T s p)).sum = 1 := by
  induction m generalizing s with
  | zero => simp [allPaths]
  | succ m ih =>
    obtain ⟨h1, _, h3, _⟩ := hm.row hs
    simp only [allPaths]
    rw [sum_map_flatMap]
    have : (List.range T.length).map (fun j =>
          (((allPaths T.length m).map (fun p => j :: p)).map (fun p => pathProb T s p)).sum)
        = (List.range T.length).map (fun j => (T.getD s []).getD j 0) := by
      apply List.map_congr_left
      intro j hj
      rw [List.map_map]
      simp only [Function.comp_def, pathProb_cons]
      rw [sum_map_mul_left', ih j (List.mem_range.mp hj), mul_one]
    rw [this, ← h1, map_getD_range, h3]

/-! ### concrete 3-state model used by the non-vacuity examples of Props/C07Law.lean -/

/-- a 3-state transition matrix with two zero entries -/
def T3 : List (List Rat) := [[1/2, 1/2, 0], [1/4, 1/2, 1/4], [0, 1/3, 2/3]]
/-- its rows visited in non-increasing order of probability -/
def perm3 : List (List Nat) := [[0, 1, 2], [1, 0, 2], [2, 1, 0]]
/-- the exact cumulative rows for these orders -/
def cum3 : List (List Rat) := [[1/2, 1, 1], [1/2, 3/4, 1], [2/3, 1, 1]]

/-- the concrete model satisfies `ExactModel` -/
theorem exactModel3 : ExactModel T3 cum3 perm3 := by
  refine ⟨?_, ?_⟩
  · intro row hrow
    simp only [T3, List.mem_cons, List.not_mem_nil, or_false] at hrow
    rcases hrow with rfl | rfl | rfl
    · refine ⟨rfl, ?_, by norm_num⟩
      intro p hp; simp at hp; rcases hp with rfl | rfl <;> norm_num
    · refine ⟨rfl, ?_, by norm_num⟩
      intro p hp; simp at hp; rcases hp with rfl | rfl | rfl <;> norm_num
    · refine ⟨rfl, ?_, by norm_num⟩
      intro p hp; simp at hp; rcases hp with rfl | rfl | rfl <;> norm_num
  · intro i hi
    have : i = 0 ∨ i = 1 ∨ i = 2 := by simp [T3] at hi; omega
    rcases this with rfl | rfl | rfl
    · refine ⟨by decide, ?_, ?_⟩
      · simp [T3, perm3, nonIncreasing]
      · simp [T3, perm3, cum3, cumRow, cumsum, List.range, List.range.loop]
    · refine ⟨by decide, ?_, ?_⟩
      · simp [T3, perm3, nonIncreasing]; norm_num
      · simp [T3, perm3, cum3, cumRow, cumsum, List.range, List.range.loop]; norm_num
    · refine ⟨by decide, ?_, ?_⟩
      · simp [T3, perm3, nonIncreasing]; norm_num
      · simp [T3, perm3, cum3, cumRow, cumsum, List.range, List.range.loop]

/-- the box of the path `0 → 1 → 2 → 2` -/
theorem pathBox3 : pathBox cum3 perm3 0 [1, 2, 2] = [(1/2, 1), (3/4, 1), (0, 2/3)] := by
  simp [pathBox, posOf, intervalOf, cum3, perm3, List.idxOf, List.findIdx, List.findIdx.go]

end MsmVerif.Mcmc
